//! Native replay of solver-produced witnesses through the public API of the five crates.
//! Protocol: one JSON object per line on stdin -> one JSON object per line on stdout.
use serde_json::{json, Value};
use std::io::{BufRead, Write};
use std::panic::{catch_unwind, AssertUnwindSafe};

mod ops;
mod gen_accessors;

fn main() {
    std::panic::set_hook(Box::new(|_| {}));
    let stdin = std::io::stdin();
    let stdout = std::io::stdout();
    for line in stdin.lock().lines() {
        let line = match line { Ok(l) => l, Err(_) => break };
        if line.trim().is_empty() { continue; }
        let req: Value = match serde_json::from_str(&line) {
            Ok(v) => v,
            Err(e) => { let mut o = stdout.lock(); writeln!(o, "{}", json!({"error": format!("bad request: {}", e)})).unwrap(); o.flush().unwrap(); continue; }
        };
        let r = catch_unwind(AssertUnwindSafe(|| ops::dispatch(&req)));
        let out = match r {
            Ok(v) => v,
            Err(p) => {
                let msg = if let Some(s) = p.downcast_ref::<&str>() { s.to_string() } else if let Some(s) = p.downcast_ref::<String>() { s.clone() } else { "panic".to_string() };
                json!({"panic": msg})
            }
        };
        let mut o = stdout.lock();
        writeln!(o, "{}", out).unwrap();
        o.flush().unwrap();
    }
}
