use serde_json::{json, Value};
use std::panic::{catch_unwind, AssertUnwindSafe};
use std::str::FromStr;

fn s(req: &Value, k: &str) -> String { req[k].as_str().unwrap_or("").to_string() }

/// run f, turning a panic into {"panic": msg}
fn guarded<F: FnOnce() -> Value>(f: F) -> Value {
    match catch_unwind(AssertUnwindSafe(f)) {
        Ok(v) => v,
        Err(p) => {
            let msg = if let Some(s) = p.downcast_ref::<&str>() { s.to_string() } else if let Some(s) = p.downcast_ref::<String>() { s.clone() } else { "panic".to_string() };
            json!({"panic": msg})
        }
    }
}

fn paras_lossless(d: &deb822_lossless::Deb822) -> Value {
    Value::Array(d.paragraphs().map(|p| Value::Array(p.items().map(|(k, v)| json!([k, v])).collect())).collect())
}
fn lookups(d: &deb822_lossless::Deb822, q: &str) -> Value {
    Value::Array(d.paragraphs().map(|p| {
        let keys: Vec<String> = p.keys().collect();
        let mut get = serde_json::Map::new();
        let mut get_all = serde_json::Map::new();
        let mut contains = serde_json::Map::new();
        let mut ks = keys.clone(); ks.push(q.to_string());
        for k in ks.iter() {
            get.insert(k.clone(), match p.get(k) { Some(v) => json!(v), None => Value::Null });
            get_all.insert(k.clone(), Value::Array(p.get_all(k).map(|v| json!(v)).collect()));
            contains.insert(k.clone(), json!(p.contains_key(k)));
        }
        json!({"keys": keys, "get": get, "get_all": get_all, "contains": contains})
    }).collect())
}
fn paras_lossy(d: &deb822_lossless::lossy::Deb822) -> Value {
    Value::Array(d.iter().map(|p| Value::Array(p.iter().map(|(k, v)| json!([k, v])).collect())).collect())
}

pub fn dispatch(req: &Value) -> Value {
    match req["op"].as_str().unwrap_or("") {
        "deb822" => op_deb822(req),
        "relations" => op_relations(req),
        "total" => op_total(req),
        "ext" => op_ext(req),
        "typed_doc" => op_typed_doc(req),
        "derive" => op_derive(req),
        "derive_both" => {
            let mut a = req.clone(); a["backend"] = json!("lossy");
            let mut b = req.clone(); b["backend"] = json!("lossless");
            json!({"lossy": guarded(|| op_derive(&a)), "lossless": guarded(|| op_derive(&b))})
        }
        "rel_edit" => op_rel_edit(req),
        "rel_wrap" => op_rel_wrap(req),
        "lossy_rel" => op_lossy_rel(req),
        "deb822_edit" => op_deb822_edit(req),
        "satisfied" => op_satisfied(req),
        "lossy_doc" => op_lossy_doc(req),
        "lossy_edits" => op_lossy_edits(req),
        "codec" => op_codec(req),
        "codec_parse" => op_codec_parse(req),
        "copyright_lookup" => op_copyright_lookup(req),
        "accessor" => crate::gen_accessors::op_accessor(req),
        "control_find" => op_control_find(req),
        "wrap_sort" => op_wrap_sort(req),
        "pgp" => match debian_control::pgp::strip_pgp_signature(&s(req, "s")) {
            Ok((p, sig)) => json!({"ok": true, "payload": p, "sig": sig}),
            Err(e) => json!({"ok": false, "err": format!("{:?}", e)}),
        },
        other => json!({"error": format!("unknown op {}", other)}),
    }
}

/// everything C01/C02/C03/C06 observe about one text
fn op_deb822(req: &Value) -> Value {
    let text = s(req, "s");
    let relaxed = guarded(|| {
        let (d, errs) = deb822_lossless::Deb822::from_str_relaxed(&text);
        json!({"text": d.to_string(), "nerrors": errs.len(), "paras": paras_lossless(&d)})
    });
    let strict = guarded(|| match deb822_lossless::Deb822::from_str(&text) {
        Ok(d) => json!({"ok": true, "text": d.to_string(), "paras": paras_lossless(&d), "lookups": lookups(&d, &s(req, "q"))}),
        Err(e) => json!({"ok": false, "err": e.to_string()}),
    });
    let read = guarded(|| match deb822_lossless::Deb822::read(text.as_bytes()) {
        Ok(d) => json!({"ok": true, "text": d.to_string()}),
        Err(e) => json!({"ok": false, "err": e.to_string()}),
    });
    let read_relaxed = guarded(|| match deb822_lossless::Deb822::read_relaxed(text.as_bytes()) {
        Ok((d, errs)) => json!({"ok": true, "text": d.to_string(), "nerrors": errs.len()}),
        Err(e) => json!({"ok": false, "err": e.to_string()}),
    });
    let para = guarded(|| match deb822_lossless::Paragraph::from_str(&text) {
        Ok(p) => json!({"ok": true, "text": p.to_string(), "items": Value::Array(p.items().map(|(k, v)| json!([k, v])).collect())}),
        Err(e) => json!({"ok": false, "err": e.to_string()}),
    });
    let lossy = guarded(|| match deb822_lossless::lossy::Deb822::from_str(&text) {
        Ok(d) => json!({"ok": true, "paras": paras_lossy(&d), "text": d.to_string()}),
        Err(e) => json!({"ok": false, "err": e.to_string()}),
    });
    let lossy_para = guarded(|| match deb822_lossless::lossy::Paragraph::from_str(&text) {
        Ok(p) => json!({"ok": true, "items": Value::Array(p.iter().map(|(k, v)| json!([k, v])).collect())}),
        Err(e) => json!({"ok": false, "err": e.to_string()}),
    });
    json!({"relaxed": relaxed, "strict": strict, "read": read, "read_relaxed": read_relaxed, "para": para, "lossy": lossy, "lossy_para": lossy_para})
}

fn rel_struct(r: &debian_control::lossless::relations::Relation) -> Value {
    guarded(|| json!({
        "name": r.name(),
        "archqual": r.archqual(),
        "version": r.version().map(|(c, v)| json!([c.to_string(), v.to_string()])),
        "architectures": r.architectures().map(|it| it.collect::<Vec<String>>()),
        "profiles": r.profiles().map(|g| g.iter().map(|p| p.to_string()).collect::<Vec<String>>()).collect::<Vec<_>>(),
        "text": r.to_string(),
    }))
}
fn rels_struct(r: &debian_control::lossless::relations::Relations) -> Value {
    guarded(|| json!({
        "entries": r.entries().map(|e| Value::Array(e.relations().map(|x| rel_struct(&x)).collect())).collect::<Vec<_>>(),
        "substvars": r.substvars().collect::<Vec<String>>(),
    }))
}
fn lossy_rel_struct(r: &debian_control::lossy::Relation) -> Value {
    json!({
        "name": r.name, "archqual": r.archqual,
        "version": r.version.as_ref().map(|(c, v)| json!([c.to_string(), v.to_string()])),
        "architectures": r.architectures,
        "profiles": r.profiles.iter().map(|g| g.iter().map(|p| p.to_string()).collect::<Vec<String>>()).collect::<Vec<_>>(),
        "text": r.to_string(),
    })
}

/// everything C02/C09/C10 observe about one relationship-field text
fn op_relations(req: &Value) -> Value {
    use debian_control::lossless::relations::{Entry, Relation, Relations};
    let text = s(req, "s");
    let relaxed = |allow: bool| guarded(|| {
        let (r, errs) = Relations::parse_relaxed(&text, allow);
        json!({"text": r.to_string(), "nerrors": errs.len(), "structure": rels_struct(&r)})
    });
    let r_false = relaxed(false);
    let r_true = relaxed(true);
    let strict = guarded(|| match Relations::from_str(&text) {
        Ok(r) => json!({"ok": true, "text": r.to_string(), "structure": rels_struct(&r)}),
        Err(e) => json!({"ok": false, "err": e}),
    });
    let entry = guarded(|| match Entry::from_str(&text) {
        Ok(r) => json!({"ok": true, "text": r.to_string()}),
        Err(e) => json!({"ok": false, "err": e}),
    });
    let relation = guarded(|| match Relation::from_str(&text) {
        Ok(r) => json!({"ok": true, "text": r.to_string(), "structure": rel_struct(&r)}),
        Err(e) => json!({"ok": false, "err": e}),
    });
    let lossy = guarded(|| match debian_control::lossy::Relations::from_str(&text) {
        Ok(r) => json!({"ok": true, "text": r.to_string(), "entries": r.0.iter().map(|e| Value::Array(e.iter().map(lossy_rel_struct).collect())).collect::<Vec<_>>()}),
        Err(e) => json!({"ok": false, "err": e}),
    });
    let lossy_rel = guarded(|| match debian_control::lossy::Relation::from_str(&text) {
        Ok(r) => json!({"ok": true, "structure": lossy_rel_struct(&r)}),
        Err(e) => json!({"ok": false, "err": e}),
    });
    json!({"relaxed_false": r_false, "relaxed_true": r_true, "strict": strict, "entry": entry, "relation": relation, "lossy": lossy, "lossy_rel": lossy_rel})
}

fn okerr<T, E: std::fmt::Display>(r: Result<T, E>) -> Value {
    match r { Ok(_) => json!({"ok": true}), Err(e) => json!({"ok": false, "err": e.to_string()}) }
}
fn okerr_dbg<T, E: std::fmt::Debug>(r: Result<T, E>) -> Value {
    match r { Ok(_) => json!({"ok": true}), Err(e) => json!({"ok": false, "err": format!("{:?}", e)}) }
}

/// C02: run one text-parsing entry point; the only observation is "returned Ok/Err" (a panic is caught by the dispatcher)
fn op_total(req: &Value) -> Value {
    use debian_control as dc;
    let t = s(req, "s");
    let t = t.as_str();
    let name = s(req, "name");
    match req["entry"].as_str().unwrap_or("") {
        "deb822::Deb822::from_str" => okerr(deb822_lossless::Deb822::from_str(t)),
        "deb822::Deb822::from_str_relaxed" => { let _ = deb822_lossless::Deb822::from_str_relaxed(t); json!({"ok": true}) }
        "deb822::Paragraph::from_str" => okerr(deb822_lossless::Paragraph::from_str(t)),
        "deb822::lossy::Deb822::from_str" => okerr(deb822_lossless::lossy::Deb822::from_str(t)),
        "deb822::lossy::Paragraph::from_str" => okerr(deb822_lossless::lossy::Paragraph::from_str(t)),
        "control::relations::Relations::from_str" => okerr(dc::lossless::relations::Relations::from_str(t)),
        "control::relations::Relations::parse_relaxed_false" => { let _ = dc::lossless::relations::Relations::parse_relaxed(t, false); json!({"ok": true}) }
        "control::relations::Relations::parse_relaxed_true" => { let _ = dc::lossless::relations::Relations::parse_relaxed(t, true); json!({"ok": true}) }
        "control::relations::Entry::from_str" => okerr(dc::lossless::relations::Entry::from_str(t)),
        "control::relations::Relation::from_str" => okerr(dc::lossless::relations::Relation::from_str(t)),
        "control::lossy::Relations::from_str" => okerr(dc::lossy::Relations::from_str(t)),
        "control::lossy::Relation::from_str" => okerr(dc::lossy::Relation::from_str(t)),
        "control::lossy::Control::from_str" => okerr(dc::lossy::Control::from_str(t)),
        "control::lossy::apt::Release::from_str" => match t.parse::<deb822_lossless::lossy::Paragraph>() {
            Ok(p) => okerr(<dc::lossy::apt::Release as deb822_lossless::FromDeb822Paragraph<deb822_lossless::lossy::Paragraph>>::from_paragraph(&p)),
            Err(e) => json!({"ok": false, "err": e.to_string()}),
        },
        "control::lossy::apt::Source::from_str" => okerr(dc::lossy::apt::Source::from_str(t)),
        "control::lossy::apt::Package::from_str" => okerr(dc::lossy::apt::Package::from_str(t)),
        "control::lossy::buildinfo::Buildinfo::from_str" => okerr(dc::lossy::buildinfo::Buildinfo::from_str(t)),
        "control::lossy::ftpmaster::Removal::from_str" => okerr(dc::lossy::ftpmaster::Removal::from_str(t)),
        "control::lossless::Control::from_str" => okerr(dc::lossless::Control::from_str(t)),
        "control::lossless::apt::Source::from_str" => okerr(dc::lossless::apt::Source::from_str(t)),
        "control::lossless::apt::Package::from_str" => okerr(dc::lossless::apt::Package::from_str(t)),
        "control::lossless::apt::Release::from_str" => okerr(dc::lossless::apt::Release::from_str(t)),
        "control::lossless::buildinfo::Buildinfo::from_str" => okerr(dc::lossless::buildinfo::Buildinfo::from_str(t)),
        "control::changes::Changes::read" => okerr(dc::changes::Changes::read(t.as_bytes())),
        "control::changes::Changes::read_relaxed" => okerr_dbg(dc::changes::Changes::read_relaxed(t.as_bytes())),
        "control::changes::File::from_str" => okerr_dbg(dc::changes::File::from_str(t)),
        "control::pgp::strip_pgp_signature" => okerr_dbg(dc::pgp::strip_pgp_signature(t)),
        "control::vcs::ParsedVcs::from_str" => okerr_dbg(dc::vcs::ParsedVcs::from_str(t)),
        "control::vcs::Vcs::from_field" => okerr_dbg(dc::vcs::Vcs::from_field(&name, t)),
        "control::parse_identity" => okerr_dbg(dc::parse_identity(t)),
        "control::fields::Priority::from_str" => okerr_dbg(dc::fields::Priority::from_str(t)),
        "control::fields::Urgency::from_str" => okerr_dbg(dc::fields::Urgency::from_str(t)),
        "control::fields::MultiArch::from_str" => okerr_dbg(dc::fields::MultiArch::from_str(t)),
        "control::fields::Md5Checksum::from_str" => okerr_dbg(dc::fields::Md5Checksum::from_str(t)),
        "control::fields::Sha1Checksum::from_str" => okerr_dbg(dc::fields::Sha1Checksum::from_str(t)),
        "control::fields::Sha256Checksum::from_str" => okerr_dbg(dc::fields::Sha256Checksum::from_str(t)),
        "control::fields::Sha512Checksum::from_str" => okerr_dbg(dc::fields::Sha512Checksum::from_str(t)),
        "control::fields::PackageListEntry::from_str" => okerr_dbg(dc::fields::PackageListEntry::from_str(t)),
        "control::relations::VersionConstraint::from_str" => okerr_dbg(dc::relations::VersionConstraint::from_str(t)),
        "control::relations::BuildProfile::from_str" => okerr_dbg(dc::relations::BuildProfile::from_str(t)),
        "copyright::lossless::Copyright::from_str" => okerr_dbg(debian_copyright::lossless::Copyright::from_str(t)),
        "copyright::lossless::Copyright::from_str_relaxed" => okerr_dbg(debian_copyright::lossless::Copyright::from_str_relaxed(t)),
        "copyright::lossy::Copyright::from_str" => okerr_dbg(debian_copyright::lossy::Copyright::from_str(t)),
        "copyright::License::from_str" => okerr_dbg(debian_copyright::License::from_str(t)),
        "dep3::lossless::PatchHeader::from_str" => okerr_dbg(dep3::lossless::PatchHeader::from_str(t)),
        "dep3::lossy::PatchHeader::from_str" => okerr_dbg(dep3::lossy::PatchHeader::from_str(t)),
        "dep3::Forwarded::from_str" => okerr_dbg(dep3::Forwarded::from_str(t)),
        "dep3::OriginCategory::from_str" => okerr_dbg(dep3::OriginCategory::from_str(t)),
        "dep3::Origin::from_str" => okerr_dbg(dep3::Origin::from_str(t)),
        "dep3::AppliedUpstream::from_str" => okerr_dbg(dep3::AppliedUpstream::from_str(t)),
        "aptsources::Repositories::from_str" => okerr_dbg(apt_sources::Repositories::from_str(t)),
        "aptsources::RepositoryType::from_str" => okerr_dbg(apt_sources::RepositoryType::from_str(t)),
        "aptsources::YesNoForce::from_str" => okerr_dbg(apt_sources::YesNoForce::from_str(t)),
        "aptsources::Signature::from_str" => okerr_dbg(apt_sources::signature::Signature::from_str(t)),
        other => json!({"error": format!("unknown entry {}", other)}),
    }
}

/// native evaluation of external (non-repository) functions on concretised arguments: url, chrono, debversion, regex
fn op_ext(req: &Value) -> Value {
    let t = s(req, "s");
    match req["fn"].as_str().unwrap_or("") {
        "url_parse" => match url::Url::parse(&t) { Ok(u) => json!({"ok": true, "text": u.to_string()}), Err(e) => json!({"ok": false, "err": e.to_string()}) },
        "date_parse" => match chrono::NaiveDate::parse_from_str(&t, &s(req, "fmt")) { Ok(d) => json!({"ok": true, "text": d.to_string()}), Err(e) => json!({"ok": false, "err": e.to_string()}) },
        "date_format" => match chrono::NaiveDate::parse_from_str(&t, "%Y-%m-%d") { Ok(d) => json!({"ok": true, "text": d.format(&s(req, "fmt")).to_string()}), Err(e) => json!({"ok": false, "err": e.to_string()}) },
        "dt_parse" => match chrono::DateTime::parse_from_rfc2822(&t) { Ok(d) => json!({"ok": true, "text": d.to_rfc2822()}), Err(e) => json!({"ok": false, "err": e.to_string()}) },
        "version_cmp" => {
            let a: Result<debversion::Version, _> = t.parse(); let b: Result<debversion::Version, _> = s(req, "t").parse();
            match (a, b) { (Ok(a), Ok(b)) => json!({"ok": true, "cmp": match a.cmp(&b) { std::cmp::Ordering::Less => -1, std::cmp::Ordering::Equal => 0, std::cmp::Ordering::Greater => 1 }}), _ => json!({"ok": false}) }
        }
        other => json!({"error": format!("unknown ext fn {}", other)}),
    }
}

fn js(v: &Value) -> String { v.as_str().unwrap_or("").to_string() }
fn jopt(v: &Value) -> Option<String> { if v.is_null() { None } else { Some(js(v)) } }
fn prio(v: &Value) -> debian_control::fields::Priority {
    use debian_control::fields::Priority::*;
    match v.as_str().unwrap_or("") { "Required" => Required, "Important" => Important, "Standard" => Standard, "Optional" => Optional, _ => Extra }
}
macro_rules! rt {
    ($v:expr, $ty:ty) => {{
        let v: $ty = $v;
        let t = v.to_string();
        match <$ty as FromStr>::from_str(&t) {
            Ok(w) => json!({"text": t, "ok": true, "eq": w == v, "text2": w.to_string()}),
            Err(e) => json!({"text": t, "ok": false, "err": format!("{:?}", e)}),
        }
    }};
}

/// C18: build a value of a codec type from its JSON description, print it, parse the text, compare
fn op_codec(req: &Value) -> Value {
    use debian_control as dc;
    let v = &req["v"];
    match req["type"].as_str().unwrap_or("") {
        "Priority" => rt!(prio(&v["variant"]), dc::fields::Priority),
        "MultiArch" => { use dc::fields::MultiArch::*; rt!(match js(&v["variant"]).as_str() { "Same" => Same, "Foreign" => Foreign, "No" => No, _ => Allowed }, dc::fields::MultiArch) }
        "Urgency" => { use dc::fields::Urgency::*; rt!(match js(&v["variant"]).as_str() { "Low" => Low, "Medium" => Medium, "High" => High, "Emergency" => Emergency, _ => Critical }, dc::fields::Urgency) }
        "VersionConstraint" => { use dc::relations::VersionConstraint::*; rt!(match js(&v["variant"]).as_str() { "LessThan" => LessThan, "LessThanEqual" => LessThanEqual, "Equal" => Equal, "GreaterThan" => GreaterThan, _ => GreaterThanEqual }, dc::relations::VersionConstraint) }
        "BuildProfile" => rt!(if js(&v["variant"]) == "Enabled" { dc::relations::BuildProfile::Enabled(js(&v["s"])) } else { dc::relations::BuildProfile::Disabled(js(&v["s"])) }, dc::relations::BuildProfile),
        "Md5Checksum" => rt!(dc::fields::Md5Checksum { md5sum: js(&v["hash"]), size: v["size"].as_u64().unwrap_or(0) as usize, filename: js(&v["filename"]) }, dc::fields::Md5Checksum),
        "Sha1Checksum" => rt!(dc::fields::Sha1Checksum { sha1: js(&v["hash"]), size: v["size"].as_u64().unwrap_or(0) as usize, filename: js(&v["filename"]) }, dc::fields::Sha1Checksum),
        "Sha256Checksum" => rt!(dc::fields::Sha256Checksum { sha256: js(&v["hash"]), size: v["size"].as_u64().unwrap_or(0) as usize, filename: js(&v["filename"]) }, dc::fields::Sha256Checksum),
        "Sha512Checksum" => rt!(dc::fields::Sha512Checksum { sha512: js(&v["hash"]), size: v["size"].as_u64().unwrap_or(0) as usize, filename: js(&v["filename"]) }, dc::fields::Sha512Checksum),
        "PackageListEntry" => {
            let mut e = dc::fields::PackageListEntry::new(&js(&v["package"]), &js(&v["package_type"]), &js(&v["section"]), prio(&v["priority"]));
            if let Some(a) = v["extra"].as_array() { for kv in a { e.extra.insert(js(&kv[0]), js(&kv[1])); } }
            rt!(e, dc::fields::PackageListEntry)
        }
        "File" => rt!(dc::changes::File { md5sum: js(&v["md5sum"]), size: v["size"].as_u64().unwrap_or(0) as usize, section: js(&v["section"]), priority: prio(&v["priority"]), filename: js(&v["filename"]) }, dc::changes::File),
        "ParsedVcs" => {
            let p = dc::vcs::ParsedVcs { repo_url: js(&v["repo_url"]), branch: jopt(&v["branch"]), subpath: jopt(&v["subpath"]) };
            let t = p.to_string();
            match dc::vcs::ParsedVcs::from_str(&t) {
                Ok(w) => json!({"text": t, "ok": true, "eq": w.repo_url == p.repo_url && w.branch == p.branch && w.subpath == p.subpath, "text2": w.to_string()}),
                Err(e) => json!({"text": t, "ok": false, "err": format!("{:?}", e)}),
            }
        }
        "Vcs" => {
            let x = match js(&v["variant"]).as_str() {
                "Git" => dc::vcs::Vcs::Git { repo_url: js(&v["repo_url"]), branch: jopt(&v["branch"]), subpath: jopt(&v["subpath"]) },
                "Bzr" => dc::vcs::Vcs::Bzr { repo_url: js(&v["repo_url"]), subpath: jopt(&v["subpath"]) },
                "Hg" => dc::vcs::Vcs::Hg { repo_url: js(&v["repo_url"]) },
                "Svn" => dc::vcs::Vcs::Svn { url: js(&v["repo_url"]) },
                _ => dc::vcs::Vcs::Cvs { root: js(&v["repo_url"]), module: jopt(&v["module"]) },
            };
            let (name, t) = x.to_field();
            match dc::vcs::Vcs::from_field(name, &t) {
                Ok(w) => json!({"text": t, "name": name, "ok": true, "eq": format!("{:?}", w) == format!("{:?}", x), "text2": w.to_field().1}),
                Err(e) => json!({"text": t, "name": name, "ok": false, "err": e}),
            }
        }
        "Forwarded" => rt!(match js(&v["variant"]).as_str() { "No" => dep3::Forwarded::No, "NotNeeded" => dep3::Forwarded::NotNeeded, _ => dep3::Forwarded::Yes(js(&v["s"])) }, dep3::Forwarded),
        "OriginCategory" => { use dep3::OriginCategory::*; rt!(match js(&v["variant"]).as_str() { "Backport" => Backport, "Vendor" => Vendor, "Upstream" => Upstream, _ => Other }, dep3::OriginCategory) }
        "Origin" => rt!(if js(&v["variant"]) == "Commit" { dep3::Origin::Commit(js(&v["s"])) } else { dep3::Origin::Other(js(&v["s"])) }, dep3::Origin),
        "AppliedUpstream" => rt!(if js(&v["variant"]) == "Commit" { dep3::AppliedUpstream::Commit(js(&v["s"])) } else { dep3::AppliedUpstream::Other(js(&v["s"])) }, dep3::AppliedUpstream),
        "License" => rt!(match js(&v["variant"]).as_str() { "Name" => debian_copyright::License::Name(js(&v["name"])), "Text" => debian_copyright::License::Text(js(&v["text"])), _ => debian_copyright::License::Named(js(&v["name"]), js(&v["text"])) }, debian_copyright::License),
        "RepositoryType" => rt!(if js(&v["variant"]) == "Binary" { apt_sources::RepositoryType::Binary } else { apt_sources::RepositoryType::Source }, apt_sources::RepositoryType),
        "YesNoForce" => {
            let x = match js(&v["variant"]).as_str() { "Yes" => apt_sources::YesNoForce::Yes, "No" => apt_sources::YesNoForce::No, _ => apt_sources::YesNoForce::Force };
            let t = (&x).to_string();
            match apt_sources::YesNoForce::from_str(&t) { Ok(w) => json!({"text": t, "ok": true, "eq": w == x, "text2": (&w).to_string()}), Err(e) => json!({"text": t, "ok": false, "err": format!("{:?}", e)}) }
        }
        "Signature" => rt!(if js(&v["variant"]) == "KeyBlock" { apt_sources::signature::Signature::KeyBlock(js(&v["s"])) } else { apt_sources::signature::Signature::KeyPath(js(&v["s"]).into()) }, apt_sources::signature::Signature),
        other => json!({"error": format!("unknown codec type {}", other)}),
    }
}

macro_rules! pp {
    ($ty:ty, $t:expr) => { match <$ty as FromStr>::from_str($t) { Ok(w) => json!({"ok": true, "text": w.to_string()}), Err(_) => json!({"ok": false}) } };
}
/// C18 rejection clause: parse a text, print what was parsed
fn op_codec_parse(req: &Value) -> Value {
    use debian_control as dc;
    let t = s(req, "s"); let t = t.as_str();
    match req["type"].as_str().unwrap_or("") {
        "Priority" => pp!(dc::fields::Priority, t), "MultiArch" => pp!(dc::fields::MultiArch, t), "Urgency" => pp!(dc::fields::Urgency, t),
        "VersionConstraint" => pp!(dc::relations::VersionConstraint, t), "OriginCategory" => pp!(dep3::OriginCategory, t),
        "RepositoryType" => pp!(apt_sources::RepositoryType, t),
        "YesNoForce" => match apt_sources::YesNoForce::from_str(t) { Ok(w) => json!({"ok": true, "text": (&w).to_string()}), Err(_) => json!({"ok": false}) },
        other => json!({"error": format!("unknown codec type {}", other)}),
    }
}

fn lossy_para(v: &Value) -> deb822_lossless::lossy::Paragraph {
    let fields: Vec<(String, String)> = v.as_array().map(|a| a.iter().map(|kv| (js(&kv[0]), js(&kv[1]))).collect()).unwrap_or_default();
    fields.into()
}

/// C08: build a lossy document from (name, value) lists, print it, read it back with both readers
fn op_lossy_doc(req: &Value) -> Value {
    use deb822_lossless::lossy;
    let paras: Vec<lossy::Paragraph> = req["paras"].as_array().map(|a| a.iter().map(lossy_para).collect()).unwrap_or_default();
    // a lossy::Deb822 can only be obtained by parsing: parse a placeholder with as many paragraphs, then assign
    let placeholder: String = (0..paras.len()).map(|_| "x: y\n").collect::<Vec<_>>().join("\n");
    let mut doc = lossy::Deb822::from_str(&placeholder).unwrap();
    for (slot, p) in doc.iter_mut().zip(paras.iter()) { *slot = p.clone(); }
    let text = doc.to_string();
    let single = if paras.len() == 1 { Some(paras[0].to_string()) } else { None };
    let back = guarded(|| match lossy::Deb822::from_str(&text) {
        Ok(d) => json!({"ok": true, "eq": d == doc, "paras": paras_lossy(&d), "text2": d.to_string()}),
        Err(e) => json!({"ok": false, "err": e.to_string()}),
    });
    let lossless = guarded(|| match deb822_lossless::Deb822::from_str(&text) {
        Ok(d) => json!({"ok": true, "paras": paras_lossless(&d)}),
        Err(e) => json!({"ok": false, "err": e.to_string()}),
    });
    let para_back = match &single { Some(t) => guarded(|| match lossy::Paragraph::from_str(t) { Ok(p) => json!({"ok": true, "eq": p == paras[0]}), Err(e) => json!({"ok": false, "err": e.to_string()}) }), None => Value::Null };
    json!({"text": text, "para_text": single, "back": back, "lossless": lossless, "para_back": para_back})
}

fn lossy_state(p: &deb822_lossless::lossy::Paragraph, probe: &str) -> Value {
    json!({"items": p.iter().map(|(k, v)| json!([k, v])).collect::<Vec<_>>(), "len": p.len(), "get": p.get(probe), "is_empty": p.is_empty()})
}
/// C08: apply get/set/insert/remove to a lossy paragraph, report the state after every step
fn op_lossy_edits(req: &Value) -> Value {
    let mut p = lossy_para(&req["fields"]);
    let probe = s(req, "probe");
    let mut states = vec![lossy_state(&p, &probe)];
    for op in req["ops"].as_array().cloned().unwrap_or_default() {
        let (name, val) = (js(&op[1]), js(&op[2]));
        match op[0].as_str().unwrap_or("") {
            "set" => p.set(&name, &val),
            "insert" => p.insert(&name, &val),
            "remove" => p.remove(&name),
            _ => {}
        }
        states.push(lossy_state(&p, &probe));
    }
    json!({"states": states})
}

/// C12: evaluate a relationship field against installed versions with every evaluator and lookup form
fn op_satisfied(req: &Value) -> Value {
    use debian_control as dc;
    use std::collections::HashMap;
    let text = s(req, "s");
    let mut map: HashMap<String, debversion::Version> = HashMap::new();
    if let Some(o) = req["installed"].as_object() { for (k, v) in o { if let Some(vs) = v.as_str() { map.insert(k.clone(), vs.parse().unwrap()); } } }
    let m2 = map.clone();
    let lookup = move |name: &str| -> Option<debversion::Version> { m2.get(name).cloned() };
    let lossless = guarded(|| {
        let r: dc::lossless::relations::Relations = text.parse().map_err(|e: String| e).unwrap();
        let entries: Vec<bool> = r.entries().map(|e| e.satisfied_by(&lookup)).collect();
        json!({"all": r.satisfied_by(&lookup), "entries": entries})
    });
    let lossy = guarded(|| {
        let r: dc::lossy::Relations = text.parse().map_err(|e: String| e).unwrap();
        let all_closure = r.satisfied_by(&lookup);
        let mut rels = vec![];
        for e in r.0.iter() { for rel in e.iter() {
            let by_closure = rel.satisfied_by(&lookup);
            let by_map = rel.satisfied_by(map.clone());
            let by_pair = if map.len() == 1 { let (k, v) = map.iter().next().unwrap(); Some(rel.satisfied_by((k.clone(), v.clone()))) } else { None };
            rels.push(json!({"closure": by_closure, "map": by_map, "pair": by_pair}));
        } }
        json!({"all": all_closure, "relations": rels})
    });
    json!({"lossless": lossless, "lossy": lossy})
}

/// C04/C05: apply a history of field / paragraph edits to a lossless document; report text, live content, content seen through
/// handles obtained before the history started, and the re-read of the printed text after every step
fn op_deb822_edit(req: &Value) -> Value {
    use deb822_lossless::{Deb822, Paragraph};
    let mut doc: Deb822 = if let Some(pairs) = req["pairs"].as_array() {
        // programmatically built paragraphs
        pairs.iter().map(|p| { let v: Vec<(String, String)> = p.as_array().unwrap().iter().map(|kv| (js(&kv[0]), js(&kv[1]))).collect(); Paragraph::from(v) }).collect()
    } else {
        match Deb822::from_str(&s(req, "s")) { Ok(d) => d, Err(e) => return json!({"parse_error": e.to_string()}) }
    };
    let old_doc_text = |d: &Deb822| d.to_string();
    let early: Vec<Paragraph> = doc.paragraphs().collect();
    let snapshot = |doc: &Deb822, early: &Vec<Paragraph>| -> Value {
        let text = doc.to_string();
        let reparse = guarded(|| match Deb822::from_str(&text) { Ok(d) => json!({"ok": true, "paras": paras_lossless(&d)}), Err(e) => json!({"ok": false, "err": e.to_string()}) });
        json!({"text": text, "paras": paras_lossless(doc), "early": early.iter().map(|p| Value::Array(p.items().map(|(k, v)| json!([k, v])).collect())).collect::<Vec<_>>(), "reparse": reparse})
    };
    let mut states = vec![snapshot(&doc, &early)];
    let _ = old_doc_text;
    for op in req["ops"].as_array().cloned().unwrap_or_default() {
        let pi = op["para"].as_u64().unwrap_or(0) as usize;
        let r = guarded(|| {
            match op["op"].as_str().unwrap_or("") {
                "set" => { let mut p = doc.paragraphs().nth(pi).unwrap(); p.set(&js(&op["key"]), &js(&op["value"])); }
                "insert" => { let mut p = doc.paragraphs().nth(pi).unwrap(); p.insert(&js(&op["key"]), &js(&op["value"])); }
                "remove" => { let mut p = doc.paragraphs().nth(pi).unwrap(); p.remove(&js(&op["key"])); }
                "rename" => { let mut p = doc.paragraphs().nth(pi).unwrap(); let r = p.rename(&js(&op["key"]), &js(&op["newkey"])); return json!({"renamed": r}); }
                "add_paragraph" => { let mut p = doc.add_paragraph(); if !op["key"].is_null() { p.set(&js(&op["key"]), &js(&op["value"])); } }
                "insert_paragraph" => { let mut p = doc.insert_paragraph(op["index"].as_u64().unwrap_or(0) as usize); if !op["key"].is_null() { p.set(&js(&op["key"]), &js(&op["value"])); } }
                "remove_paragraph" => { doc.remove_paragraph(op["index"].as_u64().unwrap_or(0) as usize); }
                _ => {}
            }
            Value::Null
        });
        if r.get("panic").is_some() { states.push(r); break; }
        let mut st = snapshot(&doc, &early);
        if let Some(x) = r.get("renamed") { st["renamed"] = x.clone(); }
        states.push(st);
    }
    json!({"states": states})
}

fn mk_lossy_rel(v: &Value) -> debian_control::lossy::Relation {
    use debian_control::relations::{BuildProfile, VersionConstraint};
    let vc = |x: &str| match x { "<<" => VersionConstraint::LessThan, "<=" => VersionConstraint::LessThanEqual, "=" => VersionConstraint::Equal, ">=" => VersionConstraint::GreaterThanEqual, _ => VersionConstraint::GreaterThan };
    debian_control::lossy::Relation {
        name: js(&v["name"]),
        archqual: jopt(&v["archqual"]),
        architectures: v["archs"].as_array().map(|a| a.iter().map(js).collect()),
        version: v["version"].as_array().map(|a| (vc(&js(&a[0])), js(&a[1]).parse().unwrap())),
        profiles: v["profiles"].as_array().map(|gs| gs.iter().map(|g| g.as_array().unwrap().iter().map(|t| if t[0].as_bool().unwrap_or(false) { BuildProfile::Disabled(js(&t[1])) } else { BuildProfile::Enabled(js(&t[1])) }).collect()).collect()).unwrap_or_default(),
    }
}

/// C14: lossy relation values -> text -> both readers; lossy <-> lossless conversions
fn op_lossy_rel(req: &Value) -> Value {
    use debian_control::{lossless, lossy};
    let entries: Vec<Vec<lossy::Relation>> = req["entries"].as_array().map(|es| es.iter().map(|e| e.as_array().unwrap().iter().map(mk_lossy_rel).collect()).collect()).unwrap_or_default();
    let rels = lossy::Relations(entries.clone());
    let text = rels.to_string();
    let back = guarded(|| match lossy::Relations::from_str(&text) { Ok(r) => json!({"ok": true, "eq": r == rels, "text2": r.to_string()}), Err(e) => json!({"ok": false, "err": e}) });
    let lossless_read = guarded(|| { let (r, errs) = lossless::relations::Relations::parse_relaxed(&text, false); json!({"nerrors": errs.len(), "structure": rels_struct(&r)}) });
    let mut per = vec![];
    for e in entries.iter() { for x in e.iter() {
        let t = x.to_string();
        let single = guarded(|| match lossy::Relation::from_str(&t) { Ok(r) => json!({"ok": true, "eq": &r == x}), Err(e) => json!({"ok": false, "err": e}) });
        let conv = guarded(|| { let l: lossless::relations::Relation = x.clone().into(); let lt = l.to_string(); let backr: lossy::Relation = l.into(); json!({"lossless_text": lt, "back_eq": &backr == x, "back_text": backr.to_string()}) });
        per.push(json!({"text": t, "single": single, "conv": conv}));
    } }
    let entry_conv: Vec<Value> = entries.iter().map(|e| guarded(|| { let en: lossless::relations::Entry = e.clone().into(); let t = en.to_string(); let back: Vec<lossy::Relation> = en.into(); json!({"text": t, "back_eq": &back == e}) })).collect();
    json!({"text": text, "back": back, "lossless": lossless_read, "relations": per, "entries": entry_conv})
}

/// C13: Relations::wrap_and_sort on a parsed field: output text, its structure, sortedness under the crate's own Ord, second application
fn op_rel_wrap(req: &Value) -> Value {
    use debian_control::lossless::relations::Relations;
    let text = s(req, "s");
    let (r, errs) = Relations::parse_relaxed(&text, true);
    if !errs.is_empty() { return json!({"input_errors": errs.len()}); }
    let out = r.wrap_and_sort();
    let t1 = out.to_string();
    let sorted_entries = { let es: Vec<_> = out.entries().collect(); es.windows(2).all(|w| w[0] <= w[1]) };
    let sorted_alts: Vec<bool> = out.entries().map(|e| { let rs: Vec<_> = e.relations().collect(); rs.windows(2).all(|w| w[0] <= w[1]) }).collect();
    let (re, e2) = Relations::parse_relaxed(&t1, true);
    let strict_ok = Relations::from_str(&t1).is_ok();
    let t2 = guarded(|| json!(Relations::parse_relaxed(&t1, true).0.wrap_and_sort().to_string()));
    json!({"text": t1, "reparse_errors": e2.len(), "strict_ok": strict_ok, "structure": rels_struct(&re), "live_structure": rels_struct(&out),
           "sorted_entries": sorted_entries, "sorted_alts": sorted_alts, "text2": t2})
}

fn mk_relation(v: &Value) -> debian_control::lossless::relations::Relation {
    use debian_control::lossless::relations::Relation;
    use debian_control::relations::VersionConstraint;
    let vc = |x: &str| match x { "<<" => VersionConstraint::LessThan, "<=" => VersionConstraint::LessThanEqual, "=" => VersionConstraint::Equal, ">=" => VersionConstraint::GreaterThanEqual, _ => VersionConstraint::GreaterThan };
    let name = js(&v["name"]);
    let ver = v["version"].as_array().map(|a| (vc(&js(&a[0])), js(&a[1]).parse::<debversion::Version>().unwrap()));
    match v["how"].as_str().unwrap_or("parse") {
        "new" => Relation::new(&name, ver),
        "builder" => { let mut b = Relation::build(&name); if let Some((c, x)) = ver { b = b.version_constraint(c, x); } b.build() }
        _ => { let pad = if v["pad"].as_bool().unwrap_or(false) { " " } else { "" };
               let t = match &ver { Some((c, x)) => format!("{} ({} {}){}", name, c, x, pad), None => format!("{}{}", name, pad) }; t.parse().unwrap() }
    }
}

/// C11: apply a history of edits to a relationship field; after every step report the root's text and what it re-reads to
fn op_rel_edit(req: &Value) -> Value {
    use debian_control::lossless::relations::{Entry, Relations};
    use debian_control::relations::{BuildProfile, VersionConstraint};
    let text = s(req, "s");
    let (mut root, errs) = Relations::parse_relaxed(&text, true);
    if !errs.is_empty() { return json!({"input_errors": errs.len()}); }
    let snap = |root: &Relations| -> Value {
        let t = root.to_string();
        let (re, e2) = Relations::parse_relaxed(&t, true);
        json!({"text": t, "reparse_errors": e2.len(), "structure": rels_struct(&re), "live": rels_struct(root)})
    };
    let mut states = vec![snap(&root)];
    for op in req["ops"].as_array().cloned().unwrap_or_default() {
        let i = op["i"].as_u64().unwrap_or(0) as usize; let j = op["j"].as_u64().unwrap_or(0) as usize;
        let r = guarded(|| {
            match op["op"].as_str().unwrap_or("") {
                "push" => root.push(Entry::from(mk_relation(&op["operand"]))),
                "push2" => root.push(Entry::from(vec![mk_relation(&op["operand"]), mk_relation(&op["operand2"])])),
                "insert" => root.insert(i, Entry::from(mk_relation(&op["operand"]))),
                "replace" => root.replace(i, Entry::from(mk_relation(&op["operand"]))),
                "remove_entry" => { root.remove_entry(i); }
                "entry_push" => { let mut e = root.get_entry(i).unwrap(); e.push(mk_relation(&op["operand"])); }
                "entry_replace" => { let mut e = root.get_entry(i).unwrap(); e.replace(j, mk_relation(&op["operand"])); }
                "entry_remove_relation" => { let e = root.get_entry(i).unwrap(); e.remove_relation(j); }
                "entry_remove" => { let mut e = root.get_entry(i).unwrap(); e.remove(); }
                "set_version" => { let mut r = root.get_entry(i).unwrap().get_relation(j).unwrap();
                    let vc = match op["vop"].as_str().unwrap_or(">=") { "<=" => VersionConstraint::LessThanEqual, "=" => VersionConstraint::Equal, ">>" => VersionConstraint::GreaterThan, "<<" => VersionConstraint::LessThan, _ => VersionConstraint::GreaterThanEqual };
                    r.set_version(Some((vc, js(&op["value"]).parse().unwrap()))); }
                "unset_version" => { let mut r = root.get_entry(i).unwrap().get_relation(j).unwrap(); r.set_version(None); }
                "drop_constraint" => { let mut r = root.get_entry(i).unwrap().get_relation(j).unwrap(); r.drop_constraint(); }
                "set_archqual" => { let mut r = root.get_entry(i).unwrap().get_relation(j).unwrap(); r.set_archqual(&js(&op["value"])); }
                "set_architectures" => { let mut r = root.get_entry(i).unwrap().get_relation(j).unwrap(); r.set_architectures(vec![js(&op["value"])].iter().map(|x| x.as_str())); }
                "add_profile" => { let mut r = root.get_entry(i).unwrap().get_relation(j).unwrap(); r.add_profile(&[BuildProfile::Enabled(js(&op["value"]))]); }
                "relation_remove" => { let mut r = root.get_entry(i).unwrap().get_relation(j).unwrap(); r.remove(); }
                _ => {}
            }
            Value::Null
        });
        if r.get("panic").is_some() { states.push(r); break; }
        states.push(guarded(|| snap(&root)));
    }
    json!({"states": states})
}

trait ParaBackend: deb822_lossless::convert::Deb822LikeParagraph + Sized {
    fn build(pairs: &Value) -> Self;
    fn parse(_text: &str) -> Option<Self> { None }
    fn pairs(&self) -> Value;
    fn text(&self) -> String;
}
impl ParaBackend for deb822_lossless::lossy::Paragraph {
    fn build(pairs: &Value) -> Self { lossy_para(pairs) }
    fn pairs(&self) -> Value { Value::Array(self.iter().map(|(k, v)| json!([k, v])).collect()) }
    fn text(&self) -> String { self.to_string() }
}
impl ParaBackend for deb822_lossless::Paragraph {
    fn build(pairs: &Value) -> Self {
        let v: Vec<(String, String)> = pairs.as_array().map(|a| a.iter().map(|kv| (js(&kv[0]), js(&kv[1]))).collect()).unwrap_or_default();
        deb822_lossless::Paragraph::from(v)
    }
    fn pairs(&self) -> Value { Value::Array(self.items().map(|(k, v)| json!([k, v])).collect()) }
    fn text(&self) -> String { self.to_string() }
    fn parse(text: &str) -> Option<Self> { deb822_lossless::Paragraph::from_str(text).ok() }
}

fn derive_flow<T, P>(req: &Value) -> Value
where T: deb822_lossless::FromDeb822Paragraph<P> + deb822_lossless::ToDeb822Paragraph<P>, P: ParaBackend {
    let p = P::build(&req["pairs"]);
    let x = match T::from_paragraph(&p) { Ok(x) => x, Err(e) => return json!({"ok": false, "err": e}) };
    // several deriving structs implement neither PartialEq nor Debug: values are compared through their paragraph form
    let p2: P = x.to_paragraph();
    let dbg = p2.pairs();
    let back = guarded(|| match T::from_paragraph(&p2) { Ok(y) => { let q: P = y.to_paragraph(); json!({"ok": true, "eq": q.pairs() == dbg}) }, Err(e) => json!({"ok": false, "err": e}) });
    let mut p3 = P::build(&req["prior"]);
    let upd = guarded(|| {
        x.update_paragraph(&mut p3);
        let re = match T::from_paragraph(&p3) { Ok(y) => { let q: P = y.to_paragraph(); json!({"ok": true, "eq": q.pairs() == dbg}) }, Err(e) => json!({"ok": false, "err": e}) };
        json!({"pairs": p3.pairs(), "text": p3.text(), "reread": re})
    });
    // update of a paragraph parsed from text (comments / spacing of untouched lines must survive) - lossless back-end only
    let upd_text = match req["prior_text"].as_str().and_then(P::parse) {
        Some(mut p4) => guarded(|| { x.update_paragraph(&mut p4); json!({"text": p4.text(), "pairs": p4.pairs()}) }),
        None => Value::Null,
    };
    json!({"ok": true, "to_pairs": dbg, "back": back, "update": upd, "update_text": upd_text})
}

macro_rules! derive_both {
    ($req:expr, $ty:ty) => {
        if $req["backend"].as_str() == Some("lossless") { derive_flow::<$ty, deb822_lossless::Paragraph>($req) } else { derive_flow::<$ty, deb822_lossless::lossy::Paragraph>($req) }
    };
}

/// C16: from_paragraph / to_paragraph / update_paragraph of every deriving struct, on both paragraph back-ends
fn op_derive(req: &Value) -> Value {
    use debian_control::lossy as dl;
    match req["struct"].as_str().unwrap_or("") {
        "control::lossy::control::Source" => derive_both!(req, dl::Source),
        "control::lossy::control::Binary" => derive_both!(req, dl::Binary),
        "control::lossy::apt::Release" => derive_both!(req, dl::apt::Release),
        "control::lossy::apt::Source" => derive_both!(req, dl::apt::Source),
        "control::lossy::apt::Package" => derive_both!(req, dl::apt::Package),
        "control::lossy::buildinfo::Buildinfo" => derive_both!(req, dl::buildinfo::Buildinfo),
        "control::lossy::ftpmaster::Removal" => derive_both!(req, dl::ftpmaster::Removal),
        "copyright::lossy::Header" => derive_both!(req, debian_copyright::lossy::Header),
        "copyright::lossy::FilesParagraph" => derive_both!(req, debian_copyright::lossy::FilesParagraph),
        "copyright::lossy::LicenseParagraph" => derive_both!(req, debian_copyright::lossy::LicenseParagraph),
        "dep3::lossy::PatchHeader" => derive_both!(req, dep3::lossy::PatchHeader),
        "aptsources::::Repository" => derive_both!(req, apt_sources::Repository),
        other => json!({"error": format!("unknown struct {}", other)}),
    }
}

macro_rules! doc_rt {
    ($ty:ty, $t:expr) => {
        match <$ty as FromStr>::from_str($t) {
            Ok(v) => { let t2 = v.to_string(); match <$ty as FromStr>::from_str(&t2) { Ok(v2) => json!({"ok": true, "text2": t2, "re_ok": true, "text3": v2.to_string()}), Err(e) => json!({"ok": true, "text2": t2, "re_ok": false, "re_err": e.to_string()}) } }
            Err(e) => json!({"ok": false, "err": e.to_string()}),
        }
    };
}
/// C20: typed lossy documents: parse, print, reparse, print again; plus the lossless view of the input and of the printed text
fn op_typed_doc(req: &Value) -> Value {
    use debian_control::lossy as dl;
    let t = s(req, "s"); let t = t.as_str();
    let r = guarded(|| match req["type"].as_str().unwrap_or("") {
        "control::lossy::Control::from_str" => doc_rt!(dl::Control, t),
        "control::lossy::apt::Source::from_str" => doc_rt!(dl::apt::Source, t),
        "control::lossy::apt::Package::from_str" => doc_rt!(dl::apt::Package, t),
        "copyright::lossy::Copyright::from_str" => doc_rt!(debian_copyright::lossy::Copyright, t),
        "dep3::lossy::PatchHeader::from_str" => doc_rt!(dep3::lossy::PatchHeader, t),
        "aptsources::Repositories::from_str" => doc_rt!(apt_sources::Repositories, t),
        "control::lossy::buildinfo::Buildinfo::from_str" => okerr(dl::buildinfo::Buildinfo::from_str(t)),
        "control::lossy::ftpmaster::Removal::from_str" => okerr(dl::ftpmaster::Removal::from_str(t)),
        other => json!({"error": format!("unknown typed document {}", other)}),
    });
    let view = |x: &str| guarded(|| match deb822_lossless::Deb822::from_str(x) { Ok(d) => json!({"ok": true, "paras": paras_lossless(&d)}), Err(e) => json!({"ok": false, "err": e.to_string()}) });
    let l1 = view(t);
    let l2 = match r["text2"].as_str() { Some(t2) => view(t2), None => Value::Null };
    json!({"typed": r, "lossless": l1, "lossless2": l2})
}


/// C17: look a path up in a machine-readable copyright file through both readers
fn op_copyright_lookup(req: &Value) -> Value {
    use debian_copyright::License;
    let text = s(req, "s");
    let path = s(req, "path");
    let lic = |l: &License| -> Value { match l {
        License::Name(n) => json!({"kind": "Name", "name": n, "text": Value::Null}),
        License::Text(t) => json!({"kind": "Text", "name": Value::Null, "text": t}),
        License::Named(n, t) => json!({"kind": "Named", "name": n, "text": t}),
    } };
    let t1 = text.clone(); let p1 = path.clone();
    let lossless = guarded(move || {
        let c = match debian_copyright::lossless::Copyright::from_str(&t1) {
            Ok(c) => c,
            Err(e) => return json!({"ok": false, "err": format!("{:?}", e), "not_machine_readable": matches!(e, debian_copyright::lossless::Error::NotMachineReadable)}),
        };
        let pth = std::path::Path::new(&p1);
        let files: Vec<Value> = c.iter_files().map(|f| json!({"comment": f.comment(), "files": f.files(), "matches": f.matches(pth)})).collect();
        let found = c.find_files(pth).map(|f| json!({"comment": f.comment()}));
        let license = c.find_license_for_file(pth).map(|l| lic(&l));
        let licenses: Vec<Value> = c.iter_licenses().map(|l| json!({"name": l.name(), "text": l.text()})).collect();
        json!({"ok": true, "files": files, "found": found, "license": license, "licenses": licenses})
    });
    let lossy = guarded(move || {
        let c = match debian_copyright::lossy::Copyright::from_str(&text) {
            Ok(c) => c,
            Err(e) => return json!({"ok": false, "err": e}),
        };
        let pth = std::path::Path::new(&path);
        let comment_of = |f: &debian_copyright::lossy::FilesParagraph| -> Value {
            let p: deb822_lossless::lossy::Paragraph = f.to_string().parse().unwrap();
            match p.get("Comment") { Some(c) => json!(c), None => Value::Null }
        };
        let files: Vec<Value> = c.files.iter().map(|f| json!({"comment": comment_of(f), "matches": f.matches(pth)})).collect();
        let found = c.find_files(pth).map(|f| json!({"comment": comment_of(f)}));
        let license = c.find_license_for_file(pth).map(lic);
        json!({"ok": true, "files": files, "found": found, "license": license})
    });
    json!({"lossless": lossless, "lossy": lossy})
}


/// C15: which paragraphs a control file reports as its source / binary packages, before and after add_source / add_binary
fn op_control_find(req: &Value) -> Value {
    use debian_control::lossless::control::Control;
    let text = s(req, "s");
    guarded(|| {
        let mut c: Control = match text.parse() { Ok(c) => c, Err(e) => return json!({"ok": false, "err": format!("{:?}", e)}) };
        let snap = |c: &Control| -> Value {
            let src = c.source().map(|x| json!({"id": x.as_deb822().get("X-Id"), "name": x.name()}));
            let bins: Vec<Value> = c.binaries().map(|b| json!({"id": b.as_deb822().get("X-Id"), "name": b.name()})).collect();
            json!({"source": src, "binaries": bins, "text": c.to_string()})
        };
        let before = snap(&c);
        let mut returned = Value::Null;
        if let Some(a) = req["add"].as_array() {
            let name = js(&a[1]);
            if js(&a[0]) == "source" { let x = c.add_source(&name); returned = json!({"id": x.as_deb822().get("X-Id"), "name": x.name()}); }
            else { let x = c.add_binary(&name); returned = json!({"id": x.as_deb822().get("X-Id"), "name": x.name()}); }
        }
        json!({"ok": true, "before": before, "after": snap(&c), "returned": returned})
    })
}


/// C07: reformat a document / paragraph / control file with the given settings, twice
fn op_wrap_sort(req: &Value) -> Value {
    use deb822_lossless::{Deb822, Indentation, Paragraph};
    use deb822_lossless::lossless::Entry;
    let text = s(req, "s");
    let level = s(req, "level");
    let indent = match req["indent"].as_u64() { Some(0) | None => Indentation::FieldNameLength, Some(n) => Indentation::Spaces(n as u32) };
    let immediate = req["immediate"].as_bool().unwrap_or(false);
    let maxlen = req["maxlen"].as_u64().map(|n| n as usize);
    let sort_entries = req["sort_entries"].as_str().map(|x| x.to_string());
    let sort_paragraphs = req["sort_paragraphs"].as_str().map(|x| x.to_string());
    let formatter = req["formatter"].as_str().map(|x| x.to_string());
    guarded(move || {
        let fmt_identity = |_k: &str, v: &str| -> String { v.to_string() };
        let fmt_comma = |_k: &str, v: &str| -> String { v.split(',').map(|x| x.trim().to_string()).collect::<Vec<_>>().join(",\n") };
        let by_key = |a: &Entry, b: &Entry| -> std::cmp::Ordering { a.key().cmp(&b.key()) };
        let by_first = |a: &Paragraph, b: &Paragraph| -> std::cmp::Ordering { a.keys().next().cmp(&b.keys().next()) };
        let fmt: Option<&dyn Fn(&str, &str) -> String> = match formatter.as_deref() { Some("identity") => Some(&fmt_identity), Some("comma-lines") => Some(&fmt_comma), _ => None };
        let se: Option<&dyn Fn(&Entry, &Entry) -> std::cmp::Ordering> = if sort_entries.is_some() { Some(&by_key) } else { None };
        let sp: Option<&dyn Fn(&Paragraph, &Paragraph) -> std::cmp::Ordering> = if sort_paragraphs.is_some() { Some(&by_first) } else { None };
        let wrap_para = |p: &Paragraph| -> Paragraph { p.wrap_and_sort(indent, immediate, maxlen, se, fmt) };
        let items = |d: &Deb822| -> Value { paras_lossless(d) };
        let pass = |input: &str| -> Result<(String, Value), String> {
            match level.as_str() {
                "doc" => {
                    let d: Deb822 = input.parse().map_err(|e: deb822_lossless::ParseError| e.to_string())?;
                    let r = d.wrap_and_sort(sp, Some(&wrap_para));
                    Ok((r.to_string(), items(&r)))
                }
                "doc-plain" => {
                    let d: Deb822 = input.parse().map_err(|e: deb822_lossless::ParseError| e.to_string())?;
                    let r = d.wrap_and_sort(sp, None);
                    Ok((r.to_string(), items(&r)))
                }
                "paragraph" => {
                    let p: Paragraph = input.parse().map_err(|e: deb822_lossless::ParseError| e.to_string())?;
                    let r = wrap_para(&p);
                    Ok((r.to_string(), json!([r.items().map(|(k, v)| json!([k, v])).collect::<Vec<_>>()])))
                }
                "control" => {
                    let mut c: debian_control::lossless::control::Control = input.parse().map_err(|e: deb822_lossless::ParseError| e.to_string())?;
                    c.wrap_and_sort(indent, immediate, maxlen);
                    Ok((c.to_string(), items(c.as_deb822())))
                }
                other => Err(format!("unknown level {}", other)),
            }
        };
        let (t1, live1) = match pass(&text) { Ok(x) => x, Err(e) => return json!({"ok": false, "err": e}) };
        let re1 = match t1.parse::<Deb822>() { Ok(d) => json!({"ok": true, "paras": items(&d)}), Err(e) => json!({"ok": false, "err": e.to_string()}) };
        let second = if level == "paragraph" {
            // the second pass is applied to the returned paragraph itself (re-parsing a lone paragraph would move leading comments to the document)
            match catch_unwind(AssertUnwindSafe(|| { let p: Paragraph = text.parse().unwrap(); let r = wrap_para(&p); wrap_para(&r).to_string() })) { Ok(t2) => json!({"ok": true, "text": t2}), Err(_) => json!({"ok": false, "err": "panic in the second pass"}) }
        } else {
            match catch_unwind(AssertUnwindSafe(|| pass(&t1))) { Ok(Ok((t2, _))) => json!({"ok": true, "text": t2}), Ok(Err(e)) => json!({"ok": false, "err": e}), Err(_) => json!({"ok": false, "err": "panic in the second pass"}) }
        };
        let input_paras = match text.parse::<Deb822>() { Ok(d) => items(&d), Err(_) => Value::Null };
        json!({"ok": true, "text1": t1, "live1": live1, "reparse1": re1, "second": second, "input": input_paras})
    })
}
