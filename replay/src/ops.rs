use serde_json::{json, Value};
use std::panic::{catch_unwind, AssertUnwindSafe};
use std::str::FromStr;

fn s(req: &Value, k: &str) -> String { req[k].as_str().unwrap_or("").to_string() }

/// run f, turning a panic into {"panic": msg}
fn guarded<F: FnOnce() -> Value>(f: F) -> Value {
    match catch_unwind(AssertUnwindSafe(f)) {
        Ok(v) => v,
        Err(p) => {
            let msg = if let Some(s) = p.downcast_ref::<&str>() { s.to_string() } else if let Some(s) = p.downcast_ref::<String>() { s.clone() } else { "panic".to_string() };
            json!({"panic": msg})
        }
    }
}

fn paras_lossless(d: &deb822_lossless::Deb822) -> Value {
    Value::Array(d.paragraphs().map(|p| Value::Array(p.items().map(|(k, v)| json!([k, v])).collect())).collect())
}
fn lookups(d: &deb822_lossless::Deb822, q: &str) -> Value {
    Value::Array(d.paragraphs().map(|p| {
        let keys: Vec<String> = p.keys().collect();
        let mut get = serde_json::Map::new();
        let mut get_all = serde_json::Map::new();
        let mut contains = serde_json::Map::new();
        let mut ks = keys.clone(); ks.push(q.to_string());
        for k in ks.iter() {
            get.insert(k.clone(), match p.get(k) { Some(v) => json!(v), None => Value::Null });
            get_all.insert(k.clone(), Value::Array(p.get_all(k).map(|v| json!(v)).collect()));
            contains.insert(k.clone(), json!(p.contains_key(k)));
        }
        json!({"keys": keys, "get": get, "get_all": get_all, "contains": contains})
    }).collect())
}
fn paras_lossy(d: &deb822_lossless::lossy::Deb822) -> Value {
    Value::Array(d.iter().map(|p| Value::Array(p.iter().map(|(k, v)| json!([k, v])).collect())).collect())
}

pub fn dispatch(req: &Value) -> Value {
    match req["op"].as_str().unwrap_or("") {
        "deb822" => op_deb822(req),
        other => json!({"error": format!("unknown op {}", other)}),
    }
}

/// everything C01/C02/C03/C06 observe about one text
fn op_deb822(req: &Value) -> Value {
    let text = s(req, "s");
    let relaxed = guarded(|| {
        let (d, errs) = deb822_lossless::Deb822::from_str_relaxed(&text);
        json!({"text": d.to_string(), "nerrors": errs.len(), "paras": paras_lossless(&d)})
    });
    let strict = guarded(|| match deb822_lossless::Deb822::from_str(&text) {
        Ok(d) => json!({"ok": true, "text": d.to_string(), "paras": paras_lossless(&d), "lookups": lookups(&d, &s(req, "q"))}),
        Err(e) => json!({"ok": false, "err": e.to_string()}),
    });
    let read = guarded(|| match deb822_lossless::Deb822::read(text.as_bytes()) {
        Ok(d) => json!({"ok": true, "text": d.to_string()}),
        Err(e) => json!({"ok": false, "err": e.to_string()}),
    });
    let read_relaxed = guarded(|| match deb822_lossless::Deb822::read_relaxed(text.as_bytes()) {
        Ok((d, errs)) => json!({"ok": true, "text": d.to_string(), "nerrors": errs.len()}),
        Err(e) => json!({"ok": false, "err": e.to_string()}),
    });
    let para = guarded(|| match deb822_lossless::Paragraph::from_str(&text) {
        Ok(p) => json!({"ok": true, "text": p.to_string(), "items": Value::Array(p.items().map(|(k, v)| json!([k, v])).collect())}),
        Err(e) => json!({"ok": false, "err": e.to_string()}),
    });
    let lossy = guarded(|| match deb822_lossless::lossy::Deb822::from_str(&text) {
        Ok(d) => json!({"ok": true, "paras": paras_lossy(&d), "text": d.to_string()}),
        Err(e) => json!({"ok": false, "err": e.to_string()}),
    });
    let lossy_para = guarded(|| match deb822_lossless::lossy::Paragraph::from_str(&text) {
        Ok(p) => json!({"ok": true, "items": Value::Array(p.iter().map(|(k, v)| json!([k, v])).collect())}),
        Err(e) => json!({"ok": false, "err": e.to_string()}),
    });
    json!({"relaxed": relaxed, "strict": strict, "read": read, "read_relaxed": read_relaxed, "para": para, "lossy": lossy, "lossy_para": lossy_para})
}
