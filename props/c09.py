"""C09: the lossless relationship-field reader reproduces every input byte-for-byte."""
import z3
from mirsym.runner import Harness
from mirsym.values import *
from mirsym.models_core import veq
from .common import *
from .c01 import classify_panic

RL = 'lossless::relations::'


def is_substring(e, t, s):
    """t occurs in s as a contiguous substring (both Str) -> condition"""
    n, m = len(s.chars), len(t.chars)
    if m > n: return False
    return b_or(*[veq(e, t, Str(s.chars[i:i+m])) for i in range(n - m + 1)])


class C09(Harness):
    id = 'C09'
    op = 'relations'
    crates = ('control', 'deb822')
    bounds = {'quick': {'free_text_max_chars': 3}, 'thorough': {'free_text_max_chars': 4}}
    assumptions = ['input = every string of 0..N Unicode scalar values (N per tier), substitution variables allowed and disallowed',
                   'plus the prefixes "a (>= 1", "a [b", "a <b", "a:b", "${a" followed by every string of 2 characters and optionally the closing bracket (content of an opened group)']
    def fuel(self, case): return 6000 * (case['n'] + 2 + len(case.get('prefix') or ''))

    def cases(self, tier):
        N = self.bounds[tier]['free_text_max_chars']
        cs = [{'n': n, 'order': n} for n in range(N + 1)]
        # a relation followed by an opened group whose content is symbolic: '(' op digit .., '[' .., '<' ..
        for prefix in ('a (>= 1', 'a [b', 'a <b', 'a:b', '${a'):
            cs.append({'n': 2, 'prefix': prefix, 'order': N + 1})
        return cs

    def run(self, e, case):
        s = sym_text(e, case['n'])
        if case.get('prefix'):
            closer = {'(': 41, '[': 93, '<': 62, '{': 125}.get(next((c for c in case['prefix'] if c in '([<{'), ''), None)
            tail = [closer] if (closer and e.choose('close', 2)) else []
            s = Str([ord(c) for c in case['prefix']] + list(s.chars) + tail)
        e.inputs['s'] = s
        checks = []; pred = {}
        for allow in (False, True):
            r = e.call_path('control', RL + 'Relations::parse_relaxed', [s, allow])
            rel, errs = r.slots
            text = call_to_string(e, 'control', RL + 'Relations', rel)
            checks.append(('parse_relaxed(_, %s) prints the input' % allow, veq(e, text, s)))
            pred['text_%s' % allow] = text; pred['nerr_%s' % allow] = len(e.deref(errs).slots)
        st = e.call_path('control', '<%sRelations as FromStr>::from_str' % RL, [s])
        ok = st.variant == 'Ok'; pred['strict_ok'] = ok
        checks.append(('strict ok <=> tolerant reader (no substvars) reports no error', ok == (pred['nerr_False'] == 0)))
        if ok: checks.append(('strict prints the input', veq(e, call_to_string(e, 'control', RL + 'Relations', st.slots[0]), s)))
        en = e.call_path('control', '<%sEntry as FromStr>::from_str' % RL, [s])
        pred['entry_ok'] = en.variant == 'Ok'
        if en.variant == 'Ok': checks.append(('Entry::from_str prints a substring of the input', is_substring(e, call_to_string(e, 'control', RL + 'Entry', en.slots[0]), s)))
        rn = e.call_path('control', '<%sRelation as FromStr>::from_str' % RL, [s])
        pred['relation_ok'] = rn.variant == 'Ok'
        if rn.variant == 'Ok': checks.append(('Relation::from_str prints a substring of the input', is_substring(e, call_to_string(e, 'control', RL + 'Relation', rn.slots[0]), s)))
        return {'pred': pred, 'checks': checks}

    def oracle(self, case, w, nat):
        s = w['s']; v = []
        if nat.get('timeout'): return [('hang:' + hang_class(s), 'native run does not terminate on %r' % s)]
        if 'crash' in nat: return [('hang:' + hang_class(s), 'native run aborted (memory exhaustion / stack overflow) on %r: %s' % (s, nat['crash']))]
        for name in ('relaxed_false', 'relaxed_true', 'strict', 'entry', 'relation'):
            if 'panic' in nat[name]: v.append(('panic:%s:%s' % (name, classify_panic(nat[name]['panic'])), '%s panics on %r: %s' % (name, s, nat[name]['panic'][:160])))
        if v: return v
        for name in ('relaxed_false', 'relaxed_true'):
            if nat[name]['text'] != s: v.append(('fidelity:' + name, '%s(%r) prints %r' % (name, s, nat[name]['text'])))
        st = nat['strict']
        if st['ok'] != (nat['relaxed_false']['nerrors'] == 0): v.append(('strict-vs-relaxed', 'strict ok=%s but tolerant reader reports %d errors on %r' % (st['ok'], nat['relaxed_false']['nerrors'], s)))
        if st['ok'] and st['text'] != s: v.append(('fidelity:strict', 'from_str(%r) prints %r' % (s, st['text'])))
        for name in ('entry', 'relation'):
            if nat[name]['ok'] and nat[name]['text'] not in s: v.append(('fidelity:' + name, '%s::from_str(%r) prints %r, not a substring' % (name, s, nat[name]['text'])))
        return v

    def compare(self, case, pred, nat):
        d = []
        for name in ('relaxed_false', 'relaxed_true', 'strict', 'entry', 'relation'):
            if 'panic' in nat.get(name, {}): return ['native panics in ' + name]
        if pred['text_False'] != nat['relaxed_false']['text']: d.append('text(false)')
        if pred['nerr_False'] != nat['relaxed_false']['nerrors']: d.append('nerrors(false) %r vs %r' % (pred['nerr_False'], nat['relaxed_false']['nerrors']))
        if pred['nerr_True'] != nat['relaxed_true']['nerrors']: d.append('nerrors(true) %r vs %r' % (pred['nerr_True'], nat['relaxed_true']['nerrors']))
        if pred['strict_ok'] != nat['strict']['ok']: d.append('strict_ok')
        if pred['entry_ok'] != nat['entry']['ok']: d.append('entry_ok')
        if pred['relation_ok'] != nat['relation']['ok']: d.append('relation_ok')
        return d

    def nontrivial(self, case, w): return len(w['s']) >= 1
    def coverage_keys(self, case, w, nat):
        return ['len=%d' % len(w['s'])] + ['char=' + (ch if ch in ':|,()[]!<>=${} \t\r\n' else 'ident' if (ch.isalnum() and ord(ch) < 128) or ch in '-.+~' else 'other') for ch in set(w['s'])]


def hang_class(s):
    if '$' in s: return 'unterminated-substvar'
    if '[' in s: return 'unterminated-architectures'
    return 'other'


HARNESS = C09()
