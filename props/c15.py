"""C15: typed accessors - what a setter writes its getter reads; exactly one field with the documented name; nothing else moves."""
import re, json, os, sys
import z3
from mirsym.runner import Harness
from mirsym.values import *
from mirsym.models_core import veq
from mirsym.models_iter import getiter, drain, MapV
from mirsym.models_ext import version_parse
from .common import *
from .c01 import classify_panic
sys.path.insert(0, '/verif/tools')
import accessors, gen_accessors

# ---- which Debian field an accessor is documented for (independent of the code's literals) -------------------------
NAME_EXC = {
    ('Source@lossless::control', 'name'): 'Source', ('Binary@lossless::control', 'name'): 'Package',
    ('Package@lossless::apt', 'name'): 'Package', ('Source@lossless::apt', 'package'): 'Package',
    ('Release@lossless::apt', 'checksums_md5'): 'MD5Sum', ('Release@lossless::apt', 'checksums_sha1'): 'SHA1',
    ('Release@lossless::apt', 'checksums_sha256'): 'SHA256', ('Release@lossless::apt', 'checksums_sha512'): 'SHA512',
    ('Release@lossless::apt', 'no_support_for_architecture_all'): 'No-Support-for-Architecture-all',
    ('Package@lossless::apt', 'md5sum'): 'MD5sum', ('Package@lossless::apt', 'sha256'): 'SHA256', ('Package@lossless::apt', 'description_md5'): 'Description-md5',
    ('Buildinfo@lossless::buildinfo', 'binaries'): 'Binary',
    ('PatchHeader@lossless', 'upstream_bug'): 'Bug', ('PatchHeader@lossless', 'long_description'): 'Description',
    ('Header@lossless', 'format_string'): 'Format',
}


# the documented layout of list-valued fields (Debian policy / deb-buildinfo(5) / DEP-5 / repository format), independent of the code
LIST_DOC = {
    ('Source@lossless::control', 'uploaders'): 'comma', ('Source@lossless::apt', 'uploaders'): 'comma',
    ('Release@lossless::apt', 'architectures'): 'space', ('Release@lossless::apt', 'components'): 'space',
    ('Changes@lossless::changes', 'binary'): 'space', ('Changes@lossless::changes', 'architecture'): 'space',
    ('Buildinfo@lossless::buildinfo', 'binaries'): 'space', ('Buildinfo@lossless::buildinfo', 'build_tainted_by'): 'space',
    ('Header@lossless', 'files_excluded'): 'space', ('FilesParagraph@lossless', 'copyright'): 'line',
}
LIST_SEPS = {'comma': [[44, 32], [44], [44, 10]], 'space': [[32], [10]], 'line': [[10]]}
RETKIND = {'Option<String>': 'str', 'Option<Relations>': 'rel', 'Option<Vec<String>>': 'list', 'Vec<String>': 'list', 'bool': 'bool', 'Option<bool>': 'bool', 'Option<usize>': 'usize',
           'Option<debversion::Version>': 'version', 'Option<Priority>': 'priority', 'Option<MultiArch>': 'multiarch', 'Option<url::Url>': 'url',
           'Option<chrono::DateTime<chrono::FixedOffset>>': 'datetime', 'Option<chrono::NaiveDate>': 'date',
           'Vec<Md5Checksum>': 'cks', 'Vec<Sha1Checksum>': 'cks', 'Vec<Sha256Checksum>': 'cks', 'Vec<Sha512Checksum>': 'cks',
           'Option<Vec<crate::fields::Sha1Checksum>>': 'cks', 'Option<Vec<crate::fields::Sha256Checksum>>': 'cks',
           'Option<std::collections::HashMap<String, String>>': 'map'}
PARSED_SKIP = {('PatchHeader@lossless', 'long_description'), ('PatchHeader@lossless', 'author'), ('Package@lossless::apt', 'tags'), ('Changes@lossless::changes', 'get_pool_path'),
               ('LicenseParagraph@lossless', 'name'), ('LicenseParagraph@lossless', 'text'), ('LicenseParagraph@lossless', 'comment'), ('FilesParagraph@lossless', 'files'),
               ('Release@lossless::apt', 'changelogs')}


def expected_field(r):
    base = r['setter'][4:] if r['setter'] else r['getter']
    k = (accessors_key(r), base)
    if k in NAME_EXC: return NAME_EXC[k]
    return '-'.join(p.capitalize() for p in base.split('_'))


def accessors_key(r): return '%s@%s' % (r['type'], r['module'])


# ---- base documents ---------------------------------------------------------------------------------------------------
HEADS = {   # text that must precede the paragraph under test so that the view can be opened
    'Header@lossless': 'Format: https://www.debian.org/doc/packaging-manuals/copyright-format/1.0/\n',
    'FilesParagraph@lossless': 'Format: https://www.debian.org/doc/packaging-manuals/copyright-format/1.0/\n\nFiles: *\n',
}
OLD = {'str': 'old', 'rel': 'old', 'list': 'old', 'bool': 'no', 'usize': '7', 'version': '0', 'url': 'https://old.example/', 'datetime': 'Sat, 01 Jan 2000 00:00:00 +0000',
       'date': '2000-01-01', 'cks': 'abc 1 f', 'map': 'A=b', 'license': 'Old', 'origin': 'vendor, x', 'forwarded': 'no', 'applied': 'x', 'priority': 'extra', 'multiarch': 'no'}

KIND = {'&str': 'str', 'Option<&str>': 'str', 'bool': 'bool', 'usize': 'usize', '&Relations': 'rel', 'Relations': 'rel', 'Option<&Relations>': 'rel', 'Vec<String>': 'list', '&[&str]': 'list',
        'Priority': 'priority', 'Option<Priority>': 'priority', 'MultiArch': 'multiarch', 'Option<MultiArch>': 'multiarch', 'debversion::Version': 'version', '&url::Url': 'url',
        'chrono::DateTime<chrono::FixedOffset>': 'datetime', 'chrono::NaiveDate': 'date', 'Vec<Md5Checksum>': 'cks', 'Vec<Sha1Checksum>': 'cks', 'Vec<Sha256Checksum>': 'cks', 'Vec<Sha512Checksum>': 'cks',
        'std::collections::HashMap<String, String>': 'map', '&License': 'license', 'Forwarded': 'forwarded', 'AppliedUpstream': 'applied'}
OPTIONAL = {'Option<&str>', 'Option<&Relations>', 'Option<Priority>', 'Option<MultiArch>'}
PRIORITIES = ['Required', 'Important', 'Standard', 'Optional', 'Extra']
MULTIARCH = ['Same', 'Foreign', 'No', 'Allowed']
CKS_TY = {'Vec<Md5Checksum>': 'Md5Checksum', 'Vec<Sha1Checksum>': 'Sha1Checksum', 'Vec<Sha256Checksum>': 'Sha256Checksum', 'Vec<Sha512Checksum>': 'Sha512Checksum'}

alnum = lambda c: z3.Or(z3.And(c >= 97, c <= 122), z3.And(c >= 48, c <= 57), z3.And(c >= 65, c <= 90))
lower = lambda c: z3.And(c >= 97, c <= 122)
digit = lambda c: z3.And(c >= 48, c <= 57)


def TOK(e, name, n=2, cond=alnum):
    k = e.choose(name + 'len', n) + 1
    return Str([e.fresh_ascii(name, cond) for _ in range(k)])


def o(s): return [ord(c) for c in s]


class Val:
    """a setter argument list: interpreter values, witness JSON (may contain Str / z3 terms), and what the getter must return"""
    def __init__(s): s.args = []; s.js = []; s.clear = False; s.expect = None   # expect: ('str', Str) / ('list', [Str]) / ...


def gen_value(e, r, allow_clear=True, short=False):
    """build the argument list of setter r"""
    v = Val(); at = r['args']; base = r['setter'][4:]
    tok = (lambda e_, name, n=2, cond=alnum: TOK(e_, name, 1, cond)) if short else TOK
    nlist = 1 if short else 2
    if base == 'tags':      # (field name, tags)
        name = Str(o('Tag')); lst = [tok(e, 't', 1, lower) for _ in range(e.choose('nl', nlist) + 1)]
        v.args = [name, VecV(lst)]; v.js = [name, lst]; v.expect = ('list', lst); v.field = 'Tag'; return v
    if base == 'vendor_bug':
        ven = Str(o('Debian')); bug = tok(e, 'b'); v.args = [ven, bug]; v.js = [ven, bug]; v.expect = ('bugs', [('Debian', bug)]); v.field = 'Bug-Debian'; return v
    if base == 'upstream_bug':
        bug = tok(e, 'b'); v.args = [bug]; v.js = [bug]; v.expect = ('bugs', [(None, bug)]); return v
    if base == 'origin' and r['type'] == 'PatchHeader':
        cats = [None, 'backport', 'vendor', 'upstream', 'other']; ck = e.prog.enum_lookup('OriginCategory', 'dep3'); ok_ = e.prog.enum_lookup('Origin', 'dep3')
        c = cats[e.choose('cat', len(cats))]; kind = ['Commit', 'Other'][e.choose('ok', 2)]; t = tok(e, 'o', 2, digit if kind == 'Commit' else lower)
        if kind == 'Other' and c is None and not short and e.choose('catlike', 2):
            t = Str(o(['vendor', 'upstream', 'backport', 'other'][e.choose('cl', 4)]) + [44] + list(t.chars))      # 'vendor,x': no blank after the comma, so not a category prefix
        v.args = [SOME(EnumV(ck, c.capitalize())) if c else NONE(), EnumV(ok_, kind, [t])]; v.js = [c, [kind, t]]
        v.expect = ('origin', c, kind, t); return v
    a = at[0]; k = KIND.get(a)
    if k is None: raise Unsupported('no value generator for argument type ' + a)
    if a in OPTIONAL and allow_clear and e.choose('clear', 2):
        v.args = [NONE()]; v.js = [None]; v.clear = True; v.expect = ('none',); return v
    wrap = (lambda x: SOME(x)) if a in OPTIONAL else (lambda x: x)
    if k == 'str':
        t = Str([]) if (not short and e.choose('emptyv', 2)) else tok(e, 's')
        v.args = [wrap(t)]; v.js = [t]; v.expect = ('str', t) if t.chars else ('any',)
    elif k == 'bool':
        b = bool(e.choose('b', 2)); v.args = [b]; v.js = [b]; v.expect = ('bool', b); v.removes = bool(r.get('removes'))
    elif k == 'usize':
        n = e.fresh_int('n'); e.assume(z3.And(n >= 0, n < 1000000)); v.args = [n]; v.js = [n]; v.expect = ('usize', n)
    elif k == 'rel':
        n1 = [e.fresh_ascii('r', lower)]; n2 = [e.fresh_ascii('r', lower)]
        shape = e.choose('rs', 2 if short else 3)
        text = Str(n1) if shape == 0 else Str(n1 + o(', ') + n2) if shape == 1 else Str(n1 + o(' (>= 1) | ') + n2)
        rr = e.call_path('control', '<lossless::relations::Relations as FromStr>::from_str', [text])
        if rr.variant != 'Ok': raise Unsupported('relations operand rejected')
        rel = rr.slots[0]
        v.args = [wrap(Ref([rel], [0])) if a != 'Relations' else rel]; v.js = [text]; v.expect = ('rel', text)
    elif k == 'list':
        lst = [tok(e, 'l', 1, lower) for _ in range(e.choose('nl', nlist + (0 if short else 1)) + (1 if short else 0))]
        v.args = [VecV(lst) if a == 'Vec<String>' else Ref([Agg('slice', list(lst))], [0])]; v.js = [lst]; v.expect = ('list', lst) if lst else ('any',)
    elif k in ('priority', 'multiarch'):
        names = PRIORITIES if k == 'priority' else MULTIARCH
        ty = e.prog.enum_lookup('fields::Priority' if k == 'priority' else 'fields::MultiArch', 'control')
        var = names[e.choose('var', len(names))]; ev = EnumV(ty, var)
        shown = e.call_path('control', '<fields::%s as ToString>::to_string' % ('Priority' if k == 'priority' else 'MultiArch'), [Ref([ev], [0])])
        v.args = [wrap(ev)]; v.js = [shown]; v.expect = ('enum', var, shown)
    elif k == 'version':
        t = Str([e.fresh_ascii('v', digit), 46, e.fresh_ascii('v', digit)]); ver = version_parse(e, t)
        v.args = [ver]; v.js = [t]; v.expect = ('version', t)
    elif k == 'url':
        t = Str(o('https://e.example/') + [e.fresh_ascii('u', lower)]); u = e.call_path('control', 'Url::parse', [t])
        if u.variant != 'Ok': raise Unsupported('url rejected')
        v.args = [Ref([u.slots[0]], [0])]; v.js = [t]; v.expect = ('url', t)
    elif k == 'datetime':
        t = mkstr(['Tue, 02 Jan 2024 03:04:05 +0000', 'Fri, 31 Dec 1999 23:59:59 +0100'][e.choose('dt', 2)])
        d = e.call_path('control', 'DateTime::parse_from_rfc2822', [t])
        canon = e.deref(d.slots[0]).payload      # chrono's own RFC 2822 rendering of that instant
        v.args = [d.slots[0]]; v.js = [canon]; v.expect = ('datetime', canon)
    elif k == 'date':
        t = mkstr(['2024-01-02', '1999-12-31'][e.choose('d', 2)])
        d = e.call_path('dep3', 'NaiveDate::parse_from_str', [t, mkstr('%Y-%m-%d')])
        v.args = [d.slots[0]]; v.js = [t]; v.expect = ('date', t)
    elif k == 'cks':
        n = e.choose('nc', nlist) + 1; items = []; agg = []
        for i in range(n):
            h = tok(e, 'h', 1, alnum); sz = e.fresh_int('sz'); e.assume(z3.And(sz >= 0, sz < 100000)); fn = tok(e, 'f', 1, lower)
            items.append((h, sz, fn)); agg.append(Agg(CKS_TY[a], [h, sz, fn]))
        v.args = [VecV(agg)]; v.js = [[[h, sz, fn] for h, sz, fn in items]]; v.expect = ('cks', items)
    elif k == 'map':
        m = MapV(); kk = tok(e, 'k', 1, lambda c: z3.And(c >= 65, c <= 90)); vv = tok(e, 'w', 1, lower)
        if not short and e.choose('eqv', 2): vv = Str(list(vv.chars) + [61] + [e.fresh_ascii('w', lower)])       # a value that itself contains '=' (DEB_BUILD_OPTIONS=parallel=4)
        m.items.append([kk, vv])
        v.args = [m]; v.js = [[[kk, vv]]]; v.expect = ('map', [(kk, vv)])
    elif k == 'license':
        ty = e.prog.enum_lookup('License', 'copyright'); nm = tok(e, 'L', 1, lambda c: z3.And(c >= 65, c <= 90))
        if e.choose('lk', 2): ev = EnumV(ty, 'Named', [nm, mkstr('T')]); js = {'kind': 'Named', 'name': nm, 'text': 'T'}
        else: ev = EnumV(ty, 'Name', [nm]); js = {'kind': 'Name', 'name': nm, 'text': None}
        v.args = [Ref([ev], [0])]; v.js = [js]; v.expect = ('license', js)
    elif k == 'forwarded':
        ty = e.prog.enum_lookup('Forwarded', 'dep3'); var = ['No', 'NotNeeded', 'Yes'][e.choose('fw', 3)]
        t = tok(e, 'y', 2, lambda c: z3.And(c >= 65, c <= 90)) if var == 'Yes' else None
        v.args = [EnumV(ty, var, [t] if t else [])]; v.js = [[var, t]]; v.expect = ('tagged', var, t)
    elif k == 'applied':
        ty = e.prog.enum_lookup('AppliedUpstream', 'dep3'); var = ['Commit', 'Other'][e.choose('au', 2)]
        t = tok(e, 'y', 2, digit if var == 'Commit' else lower)
        v.args = [EnumV(ty, var, [t])]; v.js = [[var, t]]; v.expect = ('tagged', var, t)
    else: raise Unsupported('value kind ' + k)
    return v


# ---- comparing a getter result with the expectation (symbolic) -------------------------------------------------------
def opt(e, g):
    g = e.deref(g)
    if isinstance(g, EnumV) and g.ty == 'Option': return (g.slots[0] if g.variant == 'Some' else None), True
    return g, False


def vec_items(e, x):
    x = e.deref(x)
    if isinstance(x, (VecV, Agg)): return [e.deref(i) for i in x.slots]
    raise Unsupported('expected a list value')


def getter_matches(e, g, exp, crate):
    """cond: the getter's value g equals the expectation"""
    kind = exp[0]
    if kind == 'any': return True        # an empty string / list: only the integrity of the paragraph is judged
    val, isopt = opt(e, g)
    if kind == 'none': return val is None or val is False
    if kind == 'bool':
        if isopt: return val is not None and (e.deref(val) is exp[1] or e.deref(val) == exp[1])
        return e.deref(val) == exp[1]
    if val is None: return False
    val = e.deref(val)
    if kind in ('str', 'version', 'url', 'datetime', 'date'):
        if isinstance(val, Opaque):
            if val.kind == 'Version':
                from mirsym.models_ext import version_display
                return veq(e, Str(version_display(e, val)), exp[1])
            return veq(e, val.payload, exp[1])
        return veq(e, val, exp[1])
    if kind == 'usize': return s_eq(val, exp[1])
    if kind == 'rel':
        t = e.call_path('control', '<lossless::relations::Relations as ToString>::to_string', [Ref([val], [0])])
        return veq(e, t, exp[1])
    if kind == 'list':
        items = vec_items(e, val)
        return len(items) == len(exp[1]) and b_and(*[veq(e, a, b) for a, b in zip(items, exp[1])])
    if kind == 'enum': return isinstance(val, EnumV) and val.variant == exp[1]
    if kind == 'cks':
        items = vec_items(e, val)
        if len(items) != len(exp[1]): return False
        return b_and(*[b_and(veq(e, e.deref(it.slots[0]), h), s_eq(it.slots[1], sz), veq(e, e.deref(it.slots[2]), fn)) for it, (h, sz, fn) in zip(items, exp[1])])
    if kind == 'map':
        if not isinstance(val, MapV) or len(val.items) != len(exp[1]): return False
        return b_and(*[b_and(veq(e, p[0], kk), veq(e, p[1], vv)) for p, (kk, vv) in zip(val.items, exp[1])])
    if kind == 'license':
        js = exp[1]
        if not isinstance(val, EnumV) or val.variant != js['kind']: return False
        c = veq(e, e.deref(val.slots[0]), js['name'])
        if js['kind'] == 'Named': c = b_and(c, veq(e, e.deref(val.slots[1]), mkstr(js['text'])))
        return c
    if kind == 'tagged':
        if not isinstance(val, EnumV) or val.variant != exp[1]: return False
        return veq(e, e.deref(val.slots[0]), exp[2]) if exp[2] is not None else True
    if kind == 'origin':
        cat, org = val.slots[0], e.deref(val.slots[1])
        cat = e.deref(cat)
        okc = (cat.variant == 'None') if exp[1] is None else (cat.variant == 'Some' and e.deref(cat.slots[0]).variant == exp[1].capitalize())
        return okc and org.variant == exp[2] and veq(e, e.deref(org.slots[0]), exp[3])
    raise Unsupported('expectation kind ' + kind)


def expect_json(exp):
    """the JSON the native getter must return for a concretised expectation"""
    k = exp[0]
    if k == 'any': return {'any': True}
    if k == 'none': return None
    if k in ('str', 'version', 'url', 'date', 'usize', 'bool', 'rel', 'list'): return exp[1]
    if k == 'enum': return exp[2]
    if k == 'datetime': return exp[1]
    if k == 'cks': return [[h, sz, fn] for h, sz, fn in exp[1]]
    if k == 'map': return [[a, b] for a, b in exp[1]]
    if k == 'license': return exp[1]
    if k == 'tagged': return [exp[1], exp[2]]
    if k == 'origin': return {'category': exp[1], 'origin': [exp[2], exp[3]]}
    if k == 'bugs': return [[a, b] for a, b in exp[1]]
    return None


# ---- text bookkeeping: lines of a field -----------------------------------------------------------------------------------
def split_lines(chars):
    """split on concrete LF (symbolic characters are never LF by construction); keeps terminators off"""
    out = []; cur = []
    for c in chars:
        if isinstance(c, int) and c == 10: out.append(cur); cur = []
        else: cur.append(c)
    if cur: out.append(cur)
    return out


def line_is_field(line, name):
    n = o(name) + [58]
    return len(line) >= len(n) and all(isinstance(c, int) and c == x for c, x in zip(line[:len(n)], n))


def without_field(lines, name):
    """(lines outside the field's own lines, number of occurrences of the field)"""
    rest = []; count = 0; skipping = False
    for ln in lines:
        first = ln[0] if ln else None
        if skipping and isinstance(first, int) and first in (32, 9): continue
        skipping = False
        if line_is_field(ln, name): count += 1; skipping = True; continue
        rest.append(ln)
    return rest, count


def text_lines(t): return [[ord(c) for c in ln] for ln in t.split('\n') if ln != '' or True][: -1 if t.endswith('\n') else None]


class C15(Harness):
    id = 'C15'
    op = 'accessor'
    crates = ('deb822', 'control', 'copyright', 'dep3')
    fuel = 600000
    bounds = {'quick': {'families': ['set', 'pair', 'parsed', 'find'], 'pair_values': 'one-character values, prior states absent / present'}, 'thorough': {'families': ['set', 'pair', 'parsed', 'find'], 'pair_values': 'the full value domain and all four prior states in the pair family too'}}
    assumptions = ['the accessor table (146 setters with their getters) is read from the current source; the Debian field name each accessor stands for comes from the accessor name (snake_case -> Capitalised-Hyphenated) plus a 14-entry exception table',
                   'values: strings are 1-2 symbolic alphanumerics or empty; lists 0-2 one-letter items (for an empty string / list only the integrity of the paragraph is judged, not what the getter returns); relations "a" / "a, b" / "a (>= 1) | b" with symbolic names; versions "d.d"; sizes symbolic < 10^6; every enum variant; checksum lists of 1-2 symbolic triples; one-entry maps whose value may contain an equals sign; two fixed timestamps / dates; urls https://e.example/<letter> (url and chrono are evaluated natively on the concretised text)',
                   'prior states of the paragraph: field absent between two foreign fields / present between them / present after a comment with extra spacing / absent with a single foreign field; for a pair whose source names a second field (a legacy or synonymous spelling, read from the function bodies) also: both fields present, in either order',
                   'pair family: every setter followed by the next setter of the same view (table order, cyclic), both getters read afterwards',
                   'parsed family: every getter whose return type has a documented raw form reads a hand-written field: strings, relations (one-line and folded), lists in the documented layouts (comma lists with ", " / "," / folded; space lists on one line and folded; line lists), yes/no, decimal sizes, versions, enum keywords, urls, timestamps, checksum lines; the DEP-3 description is the first line of a two-line value',
                   'find family: control files of 1-3 paragraphs, each a Source, Package or other paragraph (solver choice), names symbolic; source()/binaries() and add_source (on files without a source paragraph) / add_binary',
                   'views are opened on the first paragraph of a parsed document (copyright views: header / first Files paragraph of a parsed copyright file)']
    oracle_leniency = ['bool setters called with false may either remove the field or store a negative flag, provided the getter reads false; a setter whose body calls remove() is a clearing setter and must remove the field whatever its prior value', 'a new field may be placed anywhere in the paragraph; an existing one must stay where it was']

    def table(self):
        t = [r for r in accessors.table() if (r['crate'], r['module'], r['type']) in gen_accessors.RUST_TYPE]
        return t

    def cases(self, tier):
        gen_accessors.ensure()
        t = self.table(); cs = []
        setters = [r for r in t if r['setter']]
        for i, r in enumerate(setters):
            cs.append({'fam': 'set', 'acc': r, 'field': expected_field(r), 'name': 'set:%s::%s' % (accessors_key(r), r['setter']), 'order': 0})
            # a pair whose bodies name another field as well (a legacy or synonymous spelling): the paragraph carries both
            for alias in r.get('literals', []):
                if alias.lower() != expected_field(r).lower() and r['getter']:
                    cs.append({'fam': 'set', 'acc': r, 'field': expected_field(r), 'alias': alias, 'name': 'alias:%s::%s+%s' % (accessors_key(r), r['setter'], alias), 'order': 0})
        by_type = {}
        for r in setters: by_type.setdefault(accessors_key(r), []).append(r)
        for k, rows in by_type.items():
            if len(rows) < 2: continue
            for i, r in enumerate(rows):
                r2 = rows[(i + 1) % len(rows)]
                cs.append({'fam': 'pair', 'acc': r, 'field': expected_field(r), 'acc2': r2, 'field2': expected_field(r2), 'name': 'pair:%s::%s+%s' % (k, r['setter'], r2['setter']), 'order': 1, 'full': tier == 'thorough'})
        for r in t:
            g = r['getter']
            if not g or (accessors_key(r), g) in PARSED_SKIP: continue
            k = RETKIND.get(r['ret'])
            if k is None or (k == 'list' and (accessors_key(r), g) not in LIST_DOC): continue
            if accessors_key(r) == 'Header@lossless' and g == 'format_string': continue      # the header's Format field is part of the base document
            cs.append({'fam': 'parsed', 'acc': r, 'field': expected_field(r), 'kind': k, 'name': 'parsed:%s::%s' % (accessors_key(r), g), 'order': 0})
        cs.append({'fam': 'find', 'name': 'find:Control', 'order': 2})
        return cs

    # -- symbolic side ------------------------------------------------------------------------------------------------------
    def open_view(self, e, r, text):
        key = accessors_key(r)
        if key in ('Header@lossless', 'FilesParagraph@lossless'):
            d = e.call_path('copyright', '<lossless::Copyright as FromStr>::from_str', [Str(text)])
            if d.variant != 'Ok': raise Unsupported('base copyright file rejected')
            cp = d.slots[0]; doc = e.deref(cp).slots[0] if isinstance(e.deref(cp), Agg) else cp
            if key == 'Header@lossless': h = e.call_path('copyright', 'lossless::Copyright::header', [Ref([cp], [0])]); x = h.slots[0]
            else:
                it = e.call_path('copyright', 'lossless::Copyright::iter_files', [Ref([cp], [0])]); x = getiter(e, it).next(e).slots[0]
            return x, ('copyright', cp)
        d = e.call_path('deb822', '<lossless::Deb822 as FromStr>::from_str', [Str(text)])
        if d.variant != 'Ok': raise Unsupported('base document rejected')
        doc = d.slots[0]
        it = e.call_path('deb822', 'lossless::Deb822::paragraphs', [Ref([doc], [0])])
        p = getiter(e, it).next(e).slots[0]
        return Agg(r['type'], [p]), ('deb822', doc)

    def doc_text(self, e, h):
        if h[0] == 'copyright': return call_to_string(e, 'copyright', 'lossless::Copyright', h[1])
        return call_to_string(e, 'deb822', 'lossless::Deb822', h[1])

    def base_text(self, e, r, field, kind_hint, alias=None):
        key = accessors_key(r)
        head = HEADS.get(key, '')
        old = OLD.get(kind_hint, 'old')
        if r['setter'] in ('set_description', 'set_long_description') and key == 'PatchHeader@lossless': old = 'old\n more'
        # the long description is the tail of the Description field: it is set on a header that has a description
        state = 4 if alias else (e.choose('prior', 2) + 1) if r['setter'] == 'set_long_description' else e.choose('prior', 2 if getattr(self, 'pairmode', False) else 4)
        oldv = old.replace('\n', '\n ')
        if alias:
            state = 4
            body = ('X-Before: b\n%s: %s\n%s: %s\nX-After: a\n' % ((alias, oldv, field, oldv) if e.choose('aorder', 2) else (field, oldv, alias, oldv)))
        elif state == 0: body = 'X-Before: b\nX-After: a\n'
        elif state == 1: body = 'X-Before: b\n%s: %s\nX-After: a\n' % (field, oldv)
        elif state == 2: body = 'X-Before: b\n# about the field\n%s:   %s\nX-After: a\n' % (field, oldv)
        else: body = 'X-Before: b\n'
        if key == 'FilesParagraph@lossless': text = head + body
        elif key == 'Header@lossless': text = head + body
        else: text = body
        return text, state

    def apply(self, e, x, r, val):
        path = '%s::%s::%s' % (r['module'], r['type'], r['setter'])
        e.call_path(r['crate'], path, [Ref([x], [0])] + val.args)

    def read(self, e, x, r, val=None):
        g = r['getter']
        if g is None: return None
        path = '%s::%s::%s' % (r['module'], r['type'], g)
        args = [Ref([x], [0])]
        if g == 'tags': args.append(Str(o('Tag')))
        return e.call_path(r['crate'], path, args)

    def kind_of(self, r):
        base = r['setter'][4:]
        if base == 'origin' and r['type'] == 'PatchHeader': return 'origin'
        if base in ('tags',): return 'list'
        return KIND.get(r['args'][0], 'str')

    def run(self, e, case):
        if case['fam'] == 'parsed': return self.run_parsed(e, case)
        if case['fam'] == 'find': return self.run_find(e, case)
        r = case['acc']; field = case['field']
        self.pairmode = case['fam'] == 'pair' and not case.get('full')
        text, state = self.base_text(e, r, field, self.kind_of(r), alias=case.get('alias'))
        x, h = self.open_view(e, r, o(text))
        before = self.doc_text(e, h)
        self.short = case['fam'] == 'pair' and not case.get('full')
        steps = []; getters = [r['getter']] if r['getter'] else (['bugs'] if 'bug' in r['setter'] else [])
        fields = []; expects = []; clears = []
        e.inputs.update(s=Str(o(text)), type='%s::%s::%s' % (r['crate'], r['module'], r['type']), steps=steps, getters=getters, getter_args=['Tag'], prior=state, fields=fields, expect=expects, clear=clears)
        val = gen_value(e, r, short=self.short)
        fld = getattr(val, 'field', field)
        steps.append({'setter': r['setter'], 'args': val.js}); fields.append(fld); expects.append(expect_json(val.expect)); clears.append(val.clear)
        self.apply(e, x, r, val)
        checks = []; pred = {}
        after1 = self.doc_text(e, h)
        checks += self.text_checks(e, before, after1, fld, val, state, r['setter'])
        if r['getter']:
            g = self.read(e, x, r)
            checks.append(('%s: the getter returns what %s wrote' % (r['getter'], r['setter']), getter_matches(e, g, val.expect, r['crate'])))
        if case['fam'] == 'pair':
            r2 = case['acc2']; val2 = gen_value(e, r2, allow_clear=False, short=not case.get('full'))
            fld2 = getattr(val2, 'field', case['field2'])
            steps.append({'setter': r2['setter'], 'args': val2.js}); fields.append(fld2); expects.append(expect_json(val2.expect)); clears.append(False)
            if r2['getter'] and r2['getter'] not in getters: getters.append(r2['getter'])
            if not r2['getter'] and 'bug' in r2['setter'] and 'bugs' not in getters: getters.append('bugs')
            self.apply(e, x, r2, val2)
            after2 = self.doc_text(e, h)
            if fld2 != fld:
                checks += self.text_checks(e, after1, after2, fld2, val2, None, r2['setter'])
                if r['getter']:
                    g = self.read(e, x, r)
                    checks.append(('%s still returns its value after %s' % (r['getter'], r2['setter']), getter_matches(e, g, val.expect, r['crate'])))
            if r2['getter']:
                g2 = self.read(e, x, r2)
                checks.append(('%s: the getter returns what %s wrote' % (r2['getter'], r2['setter']), getter_matches(e, g2, val2.expect, r2['crate'])))
        return {'pred': pred, 'checks': checks}

    def raw_value(self, e, r, kind):
        """-> (logical value chars as the field would be written after 'Field:', expectation)"""
        key = (accessors_key(r), r['getter'])
        if kind == 'str':
            if key == ('PatchHeader@lossless', 'description'):
                a = TOK(e, 's'); b = TOK(e, 'w', 1)
                return [32] + list(a.chars) + [10] + list(b.chars), ('str', a)          # the description is the first line
            t = TOK(e, 's'); return [32] + list(t.chars), ('str', t)
        if kind == 'rel':
            n1 = [e.fresh_ascii('r', lower)]; n2 = [e.fresh_ascii('r', lower)]
            body = n1 + [[44, 32], [44, 10]][e.choose('rsep', 2)] + n2
            return [32] + body, ('rel', Str(body))
        if kind == 'list':
            doc = LIST_DOC[key]; n = e.choose('nl', 2) + 1
            items = [TOK(e, 'l', 1, lower) for _ in range(n)]
            sep = LIST_SEPS[doc][e.choose('lsep', len(LIST_SEPS[doc]))] if n > 1 else []
            body = []
            for i, it in enumerate(items):
                if i: body += sep
                body += list(it.chars)
            return [32] + body, ('list', items)
        if kind == 'bool':
            b = bool(e.choose('b', 2)); return [32] + o('yes' if b else 'no'), ('bool', b)
        if kind == 'usize':
            d1 = e.fresh_ascii('d', lambda c: z3.And(c >= 49, c <= 57)); ds = [d1]; val = d1 - 48
            if e.choose('nd', 2): d2 = e.fresh_ascii('d', digit); ds.append(d2); val = val * 10 + (d2 - 48)
            return [32] + ds, ('usize', val)
        if kind == 'version':
            t = [e.fresh_ascii('v', digit), 46, e.fresh_ascii('v', digit)]; return [32] + t, ('version', Str(t))
        if kind in ('priority', 'multiarch'):
            names = PRIORITIES if kind == 'priority' else MULTIARCH; T = 'Priority' if kind == 'priority' else 'MultiArch'
            var = names[e.choose('var', len(names))]; ev = EnumV(e.prog.enum_lookup('fields::' + T, 'control'), var)
            shown = e.call_path('control', '<fields::%s as ToString>::to_string' % T, [Ref([ev], [0])])
            return [32] + list(shown.chars), ('enum', var, shown)
        if kind == 'url':
            t = o('https://e.example/') + [e.fresh_ascii('u', lower)]; return [32] + t, ('url', Str(t))
        if kind == 'datetime':
            t = ['Tue, 2 Jan 2024 03:04:05 +0000', 'Fri, 31 Dec 1999 23:59:59 +0100'][e.choose('dt', 2)]; return [32] + o(t), ('datetime', mkstr(t))
        if kind == 'date':
            t = ['2024-01-02', '1999-12-31'][e.choose('d', 2)]; return [32] + o(t), ('date', mkstr(t))
        if kind == 'cks':
            n = e.choose('nc', 2) + 1; items = []; body = []
            for i in range(n):
                h = TOK(e, 'h', 1, alnum); d = e.fresh_ascii('z', digit); fn = TOK(e, 'f', 1, lower)
                items.append((h, d - 48, fn)); body += [10] + list(h.chars) + [32, d, 32] + list(fn.chars)
            return body, ('cks', items)
        if kind == 'map':
            # KEY=value lines; a value may contain '=' itself
            kk = TOK(e, 'k', 1, lambda c: z3.And(c >= 65, c <= 90)); vv = list(TOK(e, 'w', 1, lower).chars)
            if e.choose('eqv', 2): vv = vv + [61] + [e.fresh_ascii('w', lower)]
            return [10] + list(kk.chars) + [61] + vv, ('map', [(kk, Str(vv))])
        raise Unsupported('raw value kind ' + kind)

    def run_parsed(self, e, case):
        r = case['acc']; field = case['field']; key = accessors_key(r)
        body, exp = self.raw_value(e, r, case['kind'])
        rendered = []
        for c in body:
            rendered.append(c)
            if isinstance(c, int) and c == 10: rendered.append(32)
        text = o(HEADS.get(key, '')) + o('X-Before: b\n' + field + ':') + rendered + o('\nX-After: a\n')
        e.inputs.update(s=Str(text), type='%s::%s::%s' % (r['crate'], r['module'], r['type']), steps=[], getters=[r['getter']], getter_args=['Tag'], prior=1,
                        fields=[field], expect=[expect_json(exp)], clear=[False], fam='parsed')
        x, h = self.open_view(e, r, text)
        g = self.read(e, x, r)
        return {'pred': {}, 'checks': [('%s() gives the documented reading of the raw %s field' % (r['getter'], field), getter_matches(e, g, exp, r['crate']))]}

    def run_find(self, e, case):
        kinds = ['Source', 'Package', 'X-Other']
        n = e.choose('np', 3) + 1
        ks = [kinds[e.choose('pk', 3)] for _ in range(n)]
        names = [[e.fresh_ascii('n', lower)] for _ in range(n)]
        text = []
        for i, (k, nm) in enumerate(zip(ks, names)):
            if i: text += [10]
            text += o('X-Id: p%d\n' % i) + o(k + ': ') + nm + [10]
        add = [None, 'binary', 'source'][e.choose('add', 3)]
        if add == 'source' and 'Source' in ks: add = None        # add_source is documented for a file that has no source paragraph yet
        newname = [e.fresh_ascii('a', lower)]
        e.inputs.update(s=Str(text), fam='find', kinds=ks, names=[Str(x) for x in names], add=[add, Str(newname)] if add else None)
        c = e.call_path('control', '<lossless::control::Control as FromStr>::from_str', [Str(text)])
        if c.variant != 'Ok': return {'pred': {}, 'checks': [('a well-formed control file is accepted', False)]}
        ctl = c.slots[0]; cref = Ref([ctl], [0])
        checks = []
        def pid(view):
            p = e.deref(view).slots[0]
            v = e.call_path('deb822', 'lossless::Paragraph::get', [Ref([p], [0]), mkstr('X-Id')])
            return e.deref(v.slots[0]).py() if v.variant == 'Some' else None
        if add:
            fn = 'add_source' if add == 'source' else 'add_binary'
            ret = e.call_path('control', 'lossless::control::Control::' + fn, [cref, Str(newname)])
            nm = e.call_path('control', 'lossless::control::%s::name' % ('Source' if add == 'source' else 'Binary'), [Ref([ret], [0])])
            checks.append(('%s returns a view whose name is the given one' % fn, nm.variant == 'Some' and veq(e, nm.slots[0], Str(newname))))
        src = e.call_path('control', 'lossless::control::Control::source', [cref])
        want_src = next((i for i, k in enumerate(ks) if k == 'Source'), None)
        if want_src is not None: checks.append(('source() is the first paragraph with a Source field', src.variant == 'Some' and pid(src.slots[0]) == 'p%d' % want_src))
        elif add == 'source': checks.append(('source() finds the paragraph add_source created', src.variant == 'Some' and pid(src.slots[0]) is None))
        else: checks.append(('source() is None without a Source paragraph', src.variant == 'None'))
        it = e.call_path('control', 'lossless::control::Control::binaries', [cref])
        got = [pid(b) for b in drain(e, getiter(e, it))]
        want = ['p%d' % i for i, k in enumerate(ks) if k == 'Package'] + ([None] if add == 'binary' else [])
        checks.append(('binaries() are exactly the paragraphs with a Package field, in order', got == want))
        return {'pred': {}, 'checks': checks}

    def text_checks(self, e, before, after, field, val, state, setter):
        bl = split_lines(list(before.chars)); al = split_lines(list(after.chars))
        b_rest, b_n = without_field(bl, field); a_rest, a_n = without_field(al, field)
        cs = []
        same = len(a_rest) == len(b_rest) and b_and(*[veq(e, Str(x), Str(y)) for x, y in zip(a_rest, b_rest)])
        cs.append(('%s: every line outside field %s is unchanged' % (setter, field), same))
        if val.clear: cs.append(('%s(None): the field %s is removed' % (setter, field), a_n == 0))
        elif val.expect[0] == 'bool' and val.expect[1] is False:
            if getattr(val, 'removes', False): cs.append(('%s(false): the field %s is removed (the setter is a clearing setter)' % (setter, field), a_n == 0))
            else: cs.append(('%s(false): at most one field %s' % (setter, field), a_n <= 1))
        else: cs.append(('%s: the value is stored in exactly one field named %s' % (setter, field), a_n == 1))
        return cs

    # -- native side --------------------------------------------------------------------------------------------------------------
    def request(self, case, w):
        if case['fam'] == 'find': return {'op': 'control_find', 's': w['s'], 'add': w['add']}
        return {'op': 'accessor', 'type': w['type'], 's': w['s'], 'steps': w['steps'], 'getters': w['getters'], 'getter_args': w['getter_args']}

    def oracle(self, case, w, nat):
        if nat.get('timeout'): return [('hang', 'accessor does not terminate: %r' % w)]
        if 'crash' in nat: return [('crash', nat['crash'])]
        if 'error' in nat: return [('harness-error', nat['error'])]
        if case['fam'] == 'find': return self.oracle_find(case, w, nat)
        if 'panic' in nat: return [('panic:open:' + w['type'], 'opening the view panics: %s' % nat['panic'][:150])]
        if case['fam'] == 'parsed':
            g = case['acc']['getter']; got = nat['states'][0]['get'].get(g); exp = w['expect'][0]; ty = w['type'].split('::', 1)[1]
            if isinstance(got, dict) and 'panic' in got: return [('parsed-panic:%s::%s' % (ty, g), '%s() panics on %r: %s' % (g, w['s'], got['panic'][:120]))]
            if not json_eq(got, exp, case['acc']['ret']): return [('parsed-reading:%s::%s:%s' % (ty, g, layout_of(w['s'], w['fields'][0])), '%s() on %r returns %r, the documented reading is %r' % (g, w['s'], got, exp))]
            return []
        v = []; ty = w['type'].split('::', 1)[1]
        steps = w['steps']; st = nat['states']
        priors = ['absent', 'present', 'present-with-comment', 'absent-single-field', 'present-with-alias']
        if nat.get('failed'):
            k = nat['failed']['step']; s = steps[k]['setter']
            return [('panic:%s:%s::%s:%s' % (classify_panic(nat['failed']['panic']), ty, s, priors[w['prior']]), '%s(%r) panics on %r: %s' % (s, steps[k]['args'], w['s'], nat['failed']['panic'][:150]))]
        accs = [case['acc']] + ([case['acc2']] if case['fam'] == 'pair' else [])
        for k, (stp, acc) in enumerate(zip(steps, accs)):
            s = stp['setter']; fld = w['fields'][k]; exp = w['expect'][k]; clear = w['clear'][k]
            tag = '%s::%s:%s' % (ty, s, priors[w['prior']] if k == 0 else 'after-' + steps[0]['setter'])
            before, after = st[k], st[k + 1]
            g = acc['getter'] or ('bugs' if 'bug' in s else None)
            if g:
                got = after['get'].get(g)
                if isinstance(got, dict) and 'panic' in got: v.append(('getter-panic:' + tag, '%s() panics after %s(%r): %s' % (g, s, stp['args'], got['panic'][:120])))
                elif g == 'bugs':
                    if [list(x) for x in exp] != [list(x) for x in (got or [])][-len(exp):] or len(got or []) != len(exp) + len(before['get'].get('bugs') or []) - (1 if any(b[0] == exp[0][0] for b in (before['get'].get('bugs') or [])) else 0):
                        v.append(('get-after-set:' + tag, 'after %s(%r) bugs() = %r' % (s, stp['args'], got)))
                elif not json_eq(got, exp, acc['ret']): v.append(('get-after-set:' + tag, 'after %s(%r) on %r, %s() returns %r, expected %r' % (s, stp['args'], before['text'], g, got, exp)))
            if w['type'].endswith('Changes'): continue      # no way to print a Changes view through the public API
            bl = text_lines(before['text']); al = text_lines(after['text'])
            b_rest, b_n = without_field(bl, fld); a_rest, a_n = without_field(al, fld)
            if a_rest != b_rest: v.append(('other-lines-changed:' + tag, '%s(%r) turns %r into %r: lines outside %s changed' % (s, stp['args'], before['text'], after['text'], fld)))
            if clear:
                if a_n != 0: v.append(('not-removed:' + tag, '%s(None) leaves %r' % (s, after['text'])))
            elif exp is False:
                if acc.get('removes') and a_n != 0: v.append(('not-removed:' + tag, '%s(false) is a clearing setter but leaves %r' % (s, after['text'])))
                elif a_n > 1: v.append(('field-count:' + tag, '%s(false) leaves %d fields %s' % (s, a_n, fld)))
            elif a_n != 1: v.append(('field-count:' + tag, 'after %s(%r) the paragraph has %d fields named %s: %r' % (s, stp['args'], a_n, fld, after['text'])))
            if k == 1 and accs[0]['getter'] and w['fields'][0] != w['fields'][1]:
                g0 = accs[0]['getter']; got0 = after['get'].get(g0)
                if got0 != before['get'].get(g0): v.append(('other-accessor-disturbed:' + tag, '%s changes what %s() returns: %r -> %r' % (s, g0, before['get'].get(g0), got0)))
        seen = set(); out = []
        for c, m in v:
            if c not in seen: seen.add(c); out.append((c, m))
        return out

    def oracle_find(self, case, w, nat):
        if 'panic' in nat: return [('panic:find:' + classify_panic(nat['panic']), 'Control lookup panics on %r: %s' % (w['s'], nat['panic'][:120]))]
        if not nat.get('ok'): return [('find:rejected', 'well-formed control file rejected: %r' % w['s'])]
        v = []; ks = w['kinds']; names = w['names']; add = w['add']
        b = nat['before']
        ws = next((i for i, k in enumerate(ks) if k == 'Source'), None)
        if (b['source'] or {}).get('id') != (('p%d' % ws) if ws is not None else None): v.append(('find:source', 'source() of %r is %r' % (w['s'], b['source'])))
        elif ws is not None and b['source']['name'] != names[ws]: v.append(('find:source-name', 'source().name() of %r is %r' % (w['s'], b['source'])))
        wb = [['p%d' % i, names[i]] for i, k in enumerate(ks) if k == 'Package']
        if [[x['id'], x['name']] for x in b['binaries']] != wb: v.append(('find:binaries', 'binaries() of %r are %r' % (w['s'], b['binaries'])))
        if add:
            a = nat['after']; r = nat['returned']
            if r.get('name') != add[1]: v.append(('find:add_%s:returned' % add[0], 'add_%s(%r) returns a view named %r' % (add[0], add[1], r.get('name'))))
            if add[0] == 'binary':
                if [[x['id'], x['name']] for x in a['binaries']] != wb + [[None, add[1]]]: v.append(('find:add_binary:list', 'after add_binary(%r) on %r binaries() are %r' % (add[1], w['s'], a['binaries'])))
                if a['source'] != b['source']: v.append(('find:add_binary:source', 'add_binary changes source(): %r -> %r' % (b['source'], a['source'])))
            else:
                if not a['source'] or a['source']['name'] != add[1]: v.append(('find:add_source:lookup', 'after add_source(%r) on %r source() is %r' % (add[1], w['s'], a['source'])))
                if a['binaries'] != b['binaries']: v.append(('find:add_source:binaries', 'add_source changes binaries()'))
        return v

    def compare(self, case, pred, nat): return []
    def nontrivial(self, case, w): return True
    def coverage_keys(self, case, w, nat): return ['view=' + w.get('type', 'control::lossless::control::Control'), 'family=' + case['fam']]


def layout_of(text, field):
    m = re.search(r'^' + re.escape(field) + r':(.*(?:\n[ \t].*)*)', text, re.M)
    raw = m.group(1) if m else ''
    ks = []
    if '\n' in raw: ks.append('folded')
    if ',' in raw: ks.append('comma')
    if re.search(r'\S \S', raw): ks.append('space')
    return '+'.join(ks) or 'single'


def json_eq(got, exp, ret):
    if isinstance(exp, dict) and exp.get('any'): return True
    if isinstance(exp, list) and exp and isinstance(exp[0], list) and ret and 'HashMap' in ret: return sorted(map(list, got or [])) == sorted(map(list, exp))
    if isinstance(got, list) and isinstance(exp, list): return [list(x) if isinstance(x, (list, tuple)) else x for x in got] == [list(x) if isinstance(x, (list, tuple)) else x for x in exp]
    if exp is None and got is False: return True
    return got == exp


HARNESS = C15()
