"""C19: PGP clear-sign unwrapping returns exactly the payload or a specific error."""
import z3
from mirsym.runner import Harness
from mirsym.values import *
from mirsym.models_core import veq
from .common import *
from .c01 import classify_panic

BEGIN = "-----BEGIN PGP SIGNED MESSAGE-----"; BSIG = "-----BEGIN PGP SIGNATURE-----"; ESIG = "-----END PGP SIGNATURE-----"
def o(s): return [ord(c) for c in s]


def gen_line(e, name, maxlen, first_cond=None, cond=None, minlen=0):
    n = e.choose(name + 'len', maxlen - minlen + 1) + minlen
    out = []
    for i in range(n):
        c = e.fresh_char(name)
        e.assume(c != 10)
        if cond is not None: e.assume(cond(c))
        if i == 0 and first_cond is not None: e.assume(first_cond(c))
        out.append(c)
    return out


class C19(Harness):
    id = 'C19'
    op = 'pgp'
    crates = ('control',)
    fuel = 60000
    bounds = {'quick': {'headers': 2, 'payload_lines': 2, 'signature_lines': 2, 'line_chars': 2, 'note': 'truncate/junk families: headers<=1, payload_lines<=2, signature_lines<=1, line_chars<=1'},
              'thorough': {'headers': 3, 'payload_lines': 4, 'signature_lines': 3, 'line_chars': 3}}
    assumptions = ['wrapped message = marker LF, H header lines, empty line, P payload lines, BEGIN SIGNATURE, S signature lines, END SIGNATURE; every line LF-terminated',
                   'header and signature lines: 1..n symbolic characters, no LF/CR; a signature line is never the end marker (lengths differ)',
                   'payload lines: 0..n symbolic characters (no LF; CR allowed), first character not "-"; plus look-alike lines = BEGIN SIGNATURE marker with its first character replaced by, or preceded by, a symbolic non-dash character; signature look-alikes = END SIGNATURE marker followed or preceded by one symbolic character',
                   'truncation after every whole line k>=1; one appended junk line of 0..n characters',
                   'unsigned text: free text up to 3 characters, and the signed-message marker with one (symbolically chosen) character replaced']

    def cases(self, tier):
        b = self.bounds[tier]
        cs = []
        cs.append(dict(b, fam='wrap', order=1))
        small = b if tier == 'thorough' else {'headers': 1, 'payload_lines': 2, 'signature_lines': 1, 'line_chars': 1}
        for fam in ('truncate', 'junk'):
            cs.append(dict(small, fam=fam, order=1))
        cs.append({'fam': 'unsigned-free', 'n': 3, 'order': 0})
        cs.append({'fam': 'unsigned-marker', 'order': 0})
        return cs

    def build(self, e, case):
        case = {k: v for k, v in case.items() if k != 'note'}
        H = e.choose('H', case['headers'] + 1); P = e.choose('P', case['payload_lines'] + 1); S_ = e.choose('S', case['signature_lines'] + 1)
        n = case['line_chars']
        nocr = lambda c: c != 13
        headers = [gen_line(e, 'h', n, cond=nocr, minlen=1) for _ in range(H)]
        payload = []
        for i in range(P):
            pk = e.choose('pk', 3)
            if pk == 0: payload.append(gen_line(e, 'p', n, first_cond=lambda c: c != 45))
            else:
                c = e.fresh_char('pl'); e.assume(z3.And(c != 10, c != 45))
                payload.append([c] + o(BSIG[1:]) if pk == 1 else [c] + o(BSIG))      # marker with its first character replaced / marker preceded by one character
        sig = []
        for _ in range(S_):
            sk = e.choose('sk', 3)
            if sk == 0: sig.append(gen_line(e, 's', n, cond=nocr, minlen=1))
            else:
                c = e.fresh_char('sl'); e.assume(z3.And(c != 10, c != 13))
                sig.append(o(ESIG) + [c] if sk == 1 else [c] + o(ESIG))               # end marker followed / preceded by one character
        lines = [o(BEGIN)] + headers + [[]] + payload + [o(BSIG)] + sig + [o(ESIG)]
        phases = ['marker'] + ['header'] * H + ['blank'] + ['payload'] * P + ['bsig'] + ['sig'] * S_ + ['esig']
        return lines, phases, payload, sig

    def run(self, e, case):
        fam = case['fam']
        if fam == 'unsigned-free':
            n = e.choose('n', case['n'] + 1)
            s = sym_text(e, n); e.inputs.update(s=s, expect='unchanged')
            r = e.call_path('control', 'pgp::strip_pgp_signature', [s])
            return self.finish_unchanged(e, r, s)
        if fam == 'unsigned-marker':
            k = e.choose('pos', len(BEGIN)); c = e.fresh_char('m'); e.assume(z3.And(c != ord(BEGIN[k]), c != 10, c != 13))
            tail = o("\nx\n") if e.choose('tail', 2) else []
            s = Str(o(BEGIN[:k]) + [c] + o(BEGIN[k+1:]) + tail); e.inputs.update(s=s, expect='unchanged')
            r = e.call_path('control', 'pgp::strip_pgp_signature', [s])
            return self.finish_unchanged(e, r, s)
        lines, phases, payload, sig = self.build(e, case)
        text = []
        for ln in lines: text += ln + [10]
        want_payload = []
        for ln in payload: want_payload += ln + [10]
        want_sig = []
        for ln in sig: want_sig += ln
        if fam == 'wrap':
            s = Str(text); e.inputs.update(s=s, expect='ok', payload=Str(want_payload), sig=Str(want_sig))
            r = e.call_path('control', 'pgp::strip_pgp_signature', [s])
            pred = {'ok': r.variant == 'Ok'}
            if r.variant != 'Ok': return {'pred': pred, 'checks': [('wrapped message unwraps', False)]}
            got_p, got_s = r.slots[0].slots
            pred['payload'] = got_p; pred['sig'] = got_s.slots[0] if got_s.variant == 'Some' else None
            return {'pred': pred, 'checks': [('payload returned exactly', veq(e, got_p, Str(want_payload))),
                                             ('signature present', got_s.variant == 'Some'),
                                             ('signature lines concatenated', veq(e, got_s.slots[0], Str(want_sig)) if got_s.variant == 'Some' else False)]}
        if fam == 'truncate':
            k = e.choose('cut', len(lines) - 1) + 1           # keep lines[0:k], 1 <= k < len(lines)
            text = []
            for ln in lines[:k]: text += ln + [10]
            last = phases[k - 1]
            want = {'marker': 'MissingPayload', 'header': 'MissingPayload', 'blank': 'MissingPgpSignature', 'payload': 'MissingPgpSignature',
                    'bsig': 'TruncatedPgpSignature', 'sig': 'TruncatedPgpSignature'}[last]
        else:
            junk = gen_line(e, 'j', case['line_chars'])
            text = text + junk + ([10] if e.choose('jnl', 2) or not junk else [])
            want = 'JunkAfterPgpSignature'
        s = Str(text); e.inputs.update(s=s, expect=want)
        r = e.call_path('control', 'pgp::strip_pgp_signature', [s])
        pred = {'ok': r.variant == 'Ok'}
        if r.variant == 'Ok': return {'pred': pred, 'checks': [('damaged message is not presented as valid', False)]}
        pred['err'] = r.slots[0].variant
        return {'pred': pred, 'checks': [('the matching error is reported', r.slots[0].variant == want)]}

    def finish_unchanged(self, e, r, s):
        pred = {'ok': r.variant == 'Ok'}
        if r.variant != 'Ok': return {'pred': pred, 'checks': [('unsigned text accepted', False)]}
        got_p, got_s = r.slots[0].slots
        pred['payload'] = got_p; pred['sig'] = None
        return {'pred': pred, 'checks': [('unsigned text returned unchanged', veq(e, got_p, s)), ('no signature', got_s.variant == 'None')]}

    def oracle(self, case, w, nat):
        s = w['s']; exp = w['expect']
        if nat.get('timeout'): return [('hang', 'strip_pgp_signature does not terminate on %r' % s)]
        if 'crash' in nat: return [('crash', nat['crash'])]
        if 'panic' in nat: return [('panic:' + classify_panic(nat['panic']), 'strip_pgp_signature panics on %r: %s' % (s, nat['panic'][:150]))]
        if exp == 'unchanged':
            if not nat['ok'] or nat['payload'] != s or nat['sig'] is not None: return [('unsigned-altered', 'unsigned text %r came back as %r' % (s, nat))]
            return []
        if exp == 'ok':
            if not nat['ok']: return [('wrap-rejected:' + nat['err'], 'wrapped message %r rejected: %s' % (s, nat['err']))]
            v = []
            if nat['payload'] != w['payload']:
                cls = 'payload-cr-dropped' if nat['payload'] == w['payload'].replace('\r\n', '\n') else 'payload-altered'
                v.append((cls, 'payload %r came back as %r' % (w['payload'], nat['payload'])))
            if nat['sig'] != w['sig']: v.append(('signature-altered', 'signature %r came back as %r' % (w['sig'], nat['sig'])))
            return v
        if nat['ok']: return [('damaged-accepted:' + exp, 'damaged message %r accepted with payload %r (expected %s)' % (s, nat['payload'], exp))]
        if nat['err'] != exp: return [('wrong-error:%s-instead-of-%s' % (nat['err'], exp), 'message %r: error %s, expected %s' % (s, nat['err'], exp))]
        return []

    def compare(self, case, pred, nat):
        if 'panic' in nat: return ['native panics']
        if pred['ok'] != nat.get('ok'): return ['ok %r vs %r' % (pred['ok'], nat.get('ok'))]
        if pred['ok'] and (pred['payload'] != nat['payload'] or pred['sig'] != nat['sig']): return ['payload/sig differ: %r vs %r' % (pred, nat)]
        if not pred['ok'] and pred.get('err') and pred['err'] != nat['err']: return ['err %r vs %r' % (pred['err'], nat['err'])]
        return []

    def coverage_keys(self, case, w, nat): return ['family=' + case['fam'], 'expect=' + w['expect']]


HARNESS = C19()
