"""C20: typed lossy documents are stable under print/reparse and match the lossless view."""
import re, json
import z3
from mirsym.runner import Harness
from mirsym.values import *
from mirsym.models_core import veq
from mirsym import replay as replay_mod
from .common import *
from .deb822_common import *
from .c01 import classify_panic
from . import typed_common as tc
from .c02 import ENTRIES
from .c16 import is_stringy, alnum_tok

PRINTABLE = ['control::lossy::Control::from_str', 'control::lossy::apt::Source::from_str', 'control::lossy::apt::Package::from_str',
             'copyright::lossy::Copyright::from_str', 'dep3::lossy::PatchHeader::from_str', 'aptsources::Repositories::from_str']
PARSE_ONLY = ['control::lossy::buildinfo::Buildinfo::from_str', 'control::lossy::ftpmaster::Removal::from_str']
TOSTRING = {'aptsources::Repositories::from_str': '<Repositories as ToString>::to_string'}


RICH_VCS = 'https://e.example/r.git -b debian/sid [packaging]'
RICH_RELATION = 'a:any (>= 1:2-3) [b c] <d !e> <f> | g, h (<< 4)'


def string_value(e, n):
    """a pass-through string value: one token, or a folded two-line value whose first line ends in a blank / has no trailing blank"""
    shape = e.choose('vshape', 3)
    a = alnum_tok(e, 'v', n)
    if shape == 0: return a
    b = alnum_tok(e, 'w', 1)
    return Str(list(a.chars) + ([32] if shape == 1 else []) + [10] + list(b.chars))


def folded(v):
    """the text form of a logical value: continuation lines are indented by one space"""
    out = []
    for c in (v.chars if isinstance(v, Str) else [ord(x) for x in v]):
        out.append(c)
        if isinstance(c, int) and c == 10: out.append(32)
    return out


def type_path(entry):
    crate, callee, _ = ENTRIES[entry]
    return crate, re.match(r'^<(.*) as FromStr>::from_str$', callee).group(1), callee


class C20(Harness):
    id = 'C20'
    op = 'typed_doc'
    crates = ('deb822', 'control', 'copyright', 'dep3', 'aptsources')
    fuel = 500000
    bounds = {'quick': {'token_chars': 2}, 'thorough': {'token_chars': 3}}
    assumptions = ['documents are generated from the structs\' field tables (read from the current source): a base document accepted by the real reader (values for non-string fields found by native probing) plus one optional field (solver choice of presence; VCS location fields carry url, branch and subpath; relationship fields carry a relation with qualifier, epoch version, architecture list, a multi-term and a second profile group, an alternative and a second entry; string fields symbolic: one token, or a folded two-line value with / without a blank at the end of its first line), paragraphs of multi-paragraph types in both orders, an optional comment line',
                   'structural violations: the role-defining paragraph removed / duplicated, an extra paragraph that is of no kind, each mandatory field removed in turn',
                   'field-by-field comparison with the lossless reader covers String / Option<String> fields exactly; fields of other types are compared through print/reparse stability',
                   'types without a printer (Buildinfo, Removal) are decided for acceptance / rejection only; apt Release has neither FromStr nor Display and is covered by C16']

    def cases(self, tier):
        table = tc.deriving_structs()
        rp = replay_mod.Replay(replay_mod.build())
        cs = []
        for entry in PRINTABLE + PARSE_ONLY:
            structs = tc.DOCS[entry]
            paras, ok = tc.calibrate(rp, entry, structs, table)
            if not ok: continue
            common = {'entry': entry, 'base': paras, 'n': self.bounds[tier]['token_chars'], 'structs': [list(k) for k in structs]}
            cs.append(dict(common, fam='base', order=0))
            for pi, key in enumerate(structs):
                for f in table[key]['fields']:
                    if not f['field'] or not f['optional']: continue
                    goods = []
                    # relationship fields get a value with every optional part (negated architectures are a known finding of C10)
                    for v in ([RICH_RELATION] if 'Relations' in f['ty'] else []) + ([RICH_VCS] if 'Vcs' in f['ty'] else []) + tc.POOL:
                        ps = [[list(kv) for kv in p] for p in paras]; ps[pi].append([f['field'], v])
                        if rp.call({'op': 'total', 'entry': entry, 's': tc.render(ps)}).get('ok'):
                            goods.append(v)
                            if is_stringy(f['ty']) or len(goods) == 3: break
                    # a typed (non-string) field is exercised with up to three spellings the current reader accepts (e.g. yes / no of a flag)
                    for good in goods:
                        cs.append(dict(common, fam='optional', para=pi, field=f['field'], stringy=is_stringy(f['ty']), good=good, order=1))
                for f in table[key]['fields']:
                    if f['field'] and not f['optional']:
                        cs.append(dict(common, fam='missing', para=pi, field=f['field'], order=0))
                        if is_stringy(f['ty']): cs.append(dict(common, fam='mandatory-value', para=pi, field=f['field'], order=1))
            if len(structs) > 1 or entry.startswith('aptsources'):
                cs.append(dict(common, fam='structure', order=2))
        rp.stop()
        return cs

    def build_text(self, e, case):
        """returns (text Str, meta) ; meta.expect in {'ok','err'} ; meta.sym = {(para, field): Str}"""
        paras = [[list(kv) for kv in p] for p in case['base']]
        fam = case['fam']; sym = {}; expect = 'ok'; note = fam
        if fam == 'optional':
            if e.choose('present', 2):
                v = string_value(e, case['n']) if case['stringy'] else mkstr(case['good'])
                hit = [kv for kv in paras[case['para']] if kv[0] == case['field']]
                if hit: hit[0][1] = v          # the base document already carries this field: replace its value
                else: paras[case['para']].append([case['field'], v])
                sym[(case['para'], case['field'])] = v
        elif fam == 'mandatory-value':
            v = string_value(e, case['n'])
            for kv in paras[case['para']]:
                if kv[0] == case['field']: kv[1] = v
            sym[(case['para'], case['field'])] = v
        elif fam == 'missing':
            paras[case['para']] = [kv for kv in paras[case['para']] if kv[0] != case['field']]
            if not paras[case['para']]: paras[case['para']] = [['X-Other', 'x']]
            # removing a role-defining field turns the paragraph into one of another kind: not judged here
            expect = 'any' if (len(case['base']) > 1 and case['field'] in ('Files', 'License', 'Source', 'Package')) else 'err'
        elif fam == 'structure':
            k = e.choose('variant', 5)
            note = ['swap', 'drop-first', 'dup-first', 'foreign-paragraph', 'extra-last'][k]
            if k == 0:
                if len(paras) > 1 and not case['entry'].startswith('copyright'): paras = [paras[1], paras[0]] + paras[2:]
                elif len(paras) > 2: paras = [paras[0], paras[2], paras[1]]
            elif k == 1:
                paras = paras[1:]; expect = 'err' if (case['entry'].startswith(('control::lossy::Control', 'copyright'))) else 'any'
                if not paras: expect = 'any'
            elif k == 2:
                paras = [paras[0], [list(kv) for kv in paras[0]]] + paras[1:]
                expect = 'err' if case['entry'].startswith(('control::lossy::Control', 'copyright')) else 'any'
            elif k == 3:
                paras = paras + [[['X-Unknown', 'x']]]; expect = 'err'
            else:
                paras = paras + [[list(kv) for kv in paras[-1]]]; expect = 'any' if not case['entry'].startswith('control::lossy::apt') and 'PatchHeader' not in case['entry'] else 'err'
        comment_at = None
        if fam in ('base', 'optional') and e.choose('comment', 2):
            lo = 1 if case['entry'].startswith('copyright') else 0     # a copyright file must start with its Format field (C17)
            comment_at = lo + e.choose('cpos', len(paras) - lo) if len(paras) > lo else None
        chars = []
        for pi, p in enumerate(paras):
            if pi: chars.append(10)
            if comment_at == pi: chars += [ord(c) for c in '# note\n']
            for k, v in p:
                chars += [ord(c) for c in k] + [58, 32] + folded(v) + [10]
        return Str(chars), {'expect': expect, 'note': note, 'paras': [[[k, v if isinstance(v, Str) else mkstr(v)] for k, v in p] for p in paras], 'sym': sym}

    def run(self, e, case):
        entry = case['entry']; crate, ty, callee = type_path(entry)
        s, meta = self.build_text(e, case)
        e.inputs.update(s=s, type=entry, expect=meta['expect'], note=meta['note'], paras=meta['paras'])
        r = e.call_path(crate, callee, [s])
        pred = {'ok': r.variant == 'Ok'}
        checks = []
        if meta['expect'] == 'err': return {'pred': pred, 'checks': [('a structurally invalid document is rejected', r.variant == 'Err')]}
        if meta['expect'] == 'any': return {'pred': pred, 'checks': []}
        if r.variant != 'Ok': return {'pred': pred, 'checks': [('a well-formed document of this kind is accepted', False)]}
        if entry in PARSE_ONLY: return {'pred': pred, 'checks': [('accepted', True)]}
        v = r.slots[0]
        ts = TOSTRING.get(entry, '<%s as ToString>::to_string' % ty)
        t2 = e.call_path(crate, ts, [Ref([v], [0])]); pred['text2'] = t2
        r2 = e.call_path(crate, callee, [t2])
        checks.append(('the printed value parses', r2.variant == 'Ok'))
        if r2.variant == 'Ok':
            checks.append(('parse(print(v)) == v', veq(e, r2.slots[0], v)))
            checks.append(('printing is a fixpoint', veq(e, e.call_path(crate, ts, [Ref([r2.slots[0]], [0])]), t2)))
        # field by field against the lossless reader: every string field written in the input is found, unchanged, in the printed text
        l2 = e.call_path('deb822', '<lossless::Deb822 as FromStr>::from_str', [t2])
        if l2.variant != 'Ok': checks.append(('the lossless reader accepts the printed text', False))
        else:
            got = read_lossless(e, l2.slots[0])
            for (pi, fname), val in meta['sym'].items():
                if not isinstance(val, Str) or not case.get('stringy', True): continue
                hits = [b_and(veq(e, k, mkstr(fname)), veq(e, vv, val)) for p in got for k, vv in p]
                checks.append(('string field %s carries what the lossless reader shows' % fname, b_or(*hits) if hits else False))
        return {'pred': pred, 'checks': checks}

    def request(self, case, w): return {'op': 'typed_doc', 'type': w['type'], 's': w['s']}

    def oracle(self, case, w, nat):
        if nat.get('timeout'): return [('hang', 'does not terminate on %r' % w['s'])]
        if 'crash' in nat: return [('crash', nat['crash'])]
        T = w['type'].split('::')[-2]; s = w['s']; t = nat['typed']; tag = '%s:%s' % (T, w['note'] + (':' + case['field'] if case.get('field') else ''))
        if 'panic' in t: return [('panic:%s:%s' % (classify_panic(t['panic']), tag), '%s panics on %r: %s' % (T, s, t['panic'][:120]))]
        if 'error' in t: return [('harness-error', t['error'])]
        if w['expect'] == 'err':
            return [('invalid-accepted:' + tag, 'structurally invalid %s document accepted: %r' % (T, s))] if t['ok'] else []
        if w['expect'] == 'any': return []
        if not t['ok']: return [('valid-rejected:' + tag, 'well-formed %s document rejected: %r: %s' % (T, s, t.get('err', '')[:100]))]
        if 'text2' not in t: return []
        v = []
        if not t['re_ok']: v.append(('print-unparsable:' + tag, '%s prints %r which it does not parse: %s' % (T, t['text2'], t.get('re_err', '')[:100])))
        elif t['text3'] != t['text2']: v.append(('print-unstable:' + tag, '%s prints %r, after re-reading %r' % (T, t['text2'], t['text3'])))
        l1, l2 = nat['lossless'], nat['lossless2']
        if l1.get('ok') and l2 and l2.get('ok'):
            p2 = [dict((k, x) for k, x in p) for p in l2['paras']]
            table = {tuple(k): v_ for k, v_ in tc.deriving_structs().items()}
            stringy = set()
            for key in case['structs']:
                for f in table[tuple(key)]['fields']:
                    if f['field'] and is_stringy(f['ty']): stringy.add(f['field'])
            for p in l1['paras']:
                for k, x in p:
                    if k in stringy and not any(q.get(k) == x for q in p2): v.append(('field-lost:%s:%s' % (tag, k), 'field %s = %r of %r is not in the printed %s: %r' % (k, x, s, T, t['text2'])))
        elif l2 and not l2.get('ok'): v.append(('print-not-deb822:' + tag, 'printed text %r is not accepted by the lossless reader' % t['text2']))
        seen = set(); out = []
        for c, m in v:
            if c not in seen: seen.add(c); out.append((c, m))
        return out

    def compare(self, case, pred, nat):
        t = nat.get('typed', {})
        if 'panic' in t or 'ok' not in t: return []
        if pred['ok'] != t['ok']: return ['ok %r vs %r' % (pred['ok'], t['ok'])]
        if 'text2' in pred and 'text2' in t and pred['text2'] != t['text2'] and 'Repositories' not in case['entry']: return ['text2 %r vs %r' % (pred['text2'], t['text2'])]
        return []

    def coverage_keys(self, case, w, nat): return ['type=' + w['type'], 'family=' + case['fam'], 'variant=' + w['note']]


HARNESS = C20()
