"""Shared helpers for property harnesses."""
import z3
from mirsym.values import *
from mirsym.models_core import veq


def sym_text(e, n, name='c'):
    return Str([e.fresh_char(name) for _ in range(n)])


def str_eq_check(e, got, want):
    """(cond) got == want as z3 Bool/bool"""
    return veq(e, got, want)


def call_to_string(e, crate, ty, val):
    return e.call_path(crate, '<%s as ToString>::to_string' % ty, [Ref([val], [0])])


def vec_len(v):
    return len(v.slots)
