"""C03: well-formed deb822 documents are accepted and read back exactly as written."""
import z3
from mirsym.runner import Harness
from mirsym.values import *
from mirsym.models_core import veq
from mirsym.models_iter import getiter, drain
from .common import *
from .deb822_common import *
from .c01 import classify_panic
from . import c01  # ReadStub model registration


def first_index(e, names, k):
    for j, n in enumerate(names):
        if e.branch(veq(e, Str(n), k if isinstance(k, Str) else Str(k))): return j
    return None


class C03(Harness):
    id = 'C03'
    op = 'deb822'
    fuel = 60000
    bounds = {'quick': {'S1_lines': 3, 'S2_lines': 4, 'S3_lines': 2, 'S3_width': 1, 'reject_lines': 3},
              'thorough': {'S1_lines': 4, 'S2_lines': 6, 'S3_lines': 2, 'S3_width': 2, 'reject_lines': 4}}
    assumptions = [
        'documents are generated from the deb822 grammar as symbolic skeletons (line kinds field/continuation/comment/blank are solver choices)',
        'S1: one layout per line kind (single space after the colon, one-space indent, names and value lines of one character), content characters fully symbolic',
        'S2: same skeletons, content characters assumed to be a-z (no forks inside a line)',
        'S3: at most 2 lines, name length 1..2, 0..w spaces/tabs after the colon, values 0..w chars, indentation 1..w spaces/tabs, comments 0..w chars (w = S3_width of the tier)',
        'value lines contain neither LF nor CR; the first value character and continuation lines do not start with space/tab; continuation lines do not start with # (outside the property\'s domain); whitespace-only continuation lines are not generated',
        'name lookups (keys/get/get_all/contains_key with a symbolic probe name) are decided on the S2 and S3 shapes; S1 decides acceptance, items() and Paragraph::from_str',
        'rejection clause: one symbolic non-empty line without any colon, not starting with space, tab or #, or an indented line at the start of a paragraph',
    ]
    oracle_leniency = ['a value whose first line is empty may be exposed with or without the leading empty line']

    def cases(self, tier):
        b = self.bounds[tier]
        cs = []
        for L in range(1, b['S1_lines'] + 1): cs.append({'shape': 'S1', 'L': L, 'order': L})
        cs.append({'shape': 'S2', 'L': b['S2_lines'], 'order': 5})
        cs.append({'shape': 'S3', 'L': b['S3_lines'], 'w': b['S3_width'], 'order': 4})
        cs.append({'shape': 'reject', 'L': b['reject_lines'], 'order': 3})
        # S1 cases with L lines are subsumed by the generator's own line-count choice: keep only the largest
        cs = [c for c in cs if not (c['shape'] == 'S1' and c['L'] < b['S1_lines'])]
        return cs

    def run(self, e, case):
        if case['shape'] == 'reject': return self.run_reject(e, case)
        text, paras, kinds = gen_doc(e, case['shape'], case['L'], w=case.get('w', 2))
        s = Str(text)
        q = Str([e.fresh_char('q')]); e.assume(keyinit(q.chars[0]))
        e.inputs['s'] = s; e.inputs['q'] = q
        e.inputs['model'] = [[[Str(k), [Str(l) for l in lines]] for k, lines in p] for p in paras]
        e.inputs['kinds'] = kinds
        checks = []
        r = e.call_path('deb822', '<lossless::Deb822 as FromStr>::from_str', [s])
        if r.variant != 'Ok':
            return {'pred': {'ok': False}, 'checks': [('well-formed document accepted', False)]}
        d = r.slots[0]
        ps = read_paragraphs(e, d)
        got = [read_items(e, p) for p in ps]
        want = [[(k, model_values_accepted(lines)) for k, lines in p] for p in paras]
        checks.append(('paragraphs/items == generator model', content_equal_cond(e, got, want)))
        pred = {'ok': True, 'paras': [[[k, v] for k, v in p] for p in got]}
        if len(ps) == len(paras) and case['shape'] != 'S1':
            for p, mp in list(zip(ps, paras))[:2]:
                names = [k for k, _ in mp]
                keys = list(drain(e, getiter(e, e.call_path('deb822', 'lossless::Paragraph::keys', [Ref([p], [0])]))))
                checks.append(('keys() in file order', len(keys) == len(names) and b_and(*[veq(e, a, Str(b)) for a, b in zip(keys, names)])))
                for i, (k, lines) in enumerate(mp):
                    j = first_index(e, names, Str(k))
                    g = e.call_path('deb822', 'lossless::Paragraph::get', [Ref([p], [0]), Str(k)])
                    if g.variant != 'Some': checks.append(('get(existing name) is Some', False)); continue
                    checks.append(('get returns the first field of that name', b_or(*[veq(e, g.slots[0], Str(w)) for w in model_values_accepted(mp[j][1])])))
                # symbolic probe key q: get_all / contains_key
                idx = [j for j, n in enumerate(names) if e.branch(veq(e, Str(n), q))]
                ga = list(drain(e, getiter(e, e.call_path('deb822', 'lossless::Paragraph::get_all', [Ref([p], [0]), q]))))
                ok = len(ga) == len(idx)
                if ok:
                    ok = b_and(*[b_or(*[veq(e, a, Str(w)) for w in model_values_accepted(mp[j][1])]) for a, j in zip(ga, idx)])
                checks.append(('get_all(q) returns every field named q in order', ok))
                ck = e.call_path('deb822', 'lossless::Paragraph::contains_key', [Ref([p], [0]), q])
                checks.append(('contains_key(q)', ck == (len(idx) > 0)))
        # Paragraph::from_str returns the first paragraph
        pr = e.call_path('deb822', '<lossless::Paragraph as FromStr>::from_str', [s])
        if paras:
            if pr.variant != 'Ok': checks.append(('Paragraph::from_str accepts', False))
            else:
                checks.append(('Paragraph::from_str == first paragraph', content_equal_cond(e, [read_items(e, pr.slots[0])], want[:1])))
        else:
            checks.append(('Paragraph::from_str on a document without paragraphs is Err', pr.variant == 'Err'))
        return {'pred': pred, 'checks': checks}

    def run_reject(self, e, case):
        # a well-formed S2 prefix (0..L-1 lines) followed by one bad line
        g = Gen(e, letters_only=True)
        text = []
        n = g.choose('npre', case['L'])
        prevfield = False
        for i in range(n):
            kind = ['field', 'blank', 'comment'][g.choose('kind', 3)]
            if kind == 'field': text += [g.ch('k', keyinit), 58, 32, g.ch('v', valstart), 10]; prevfield = True
            elif kind == 'blank': text += [10]; prevfield = False
            else: text += [35, 10]
        bad_kind = g.choose('bad', 2)
        if bad_kind == 0 or prevfield:
            c0 = e.fresh_char('b'); e.assume(z3.And(c0 != 32, c0 != 9, c0 != 35, c0 != 10, c0 != 13, c0 != 58))
            bad = [c0]
            if g.choose('bl', 2):
                c1 = e.fresh_char('b'); e.assume(z3.And(c1 != 10, c1 != 13, c1 != 58)); bad.append(c1)
            e.inputs['bad'] = 'no-colon'
        else:
            c1 = e.fresh_char('b'); e.assume(z3.And(c1 != 10, c1 != 13, c1 != 32, c1 != 9, c1 != 35))
            bad = [32 if g.choose('it', 2) == 0 else 9, c1]
            e.inputs['bad'] = 'orphan-continuation'
        text += bad
        if g.choose('fnl', 2): text += [10]
        s = Str(text)
        e.inputs['s'] = s; e.inputs['q'] = mkstr('q'); e.inputs['model'] = None
        r = e.call_path('deb822', '<lossless::Deb822 as FromStr>::from_str', [s])
        return {'pred': {'ok': r.variant == 'Ok'}, 'checks': [('corrupted document rejected', r.variant == 'Err')]}

    def oracle(self, case, w, nat):
        s = w['s']; v = []
        if nat.get('timeout'): return [('hang:strict', 'native run exceeded the watchdog on %r' % s)]
        if 'crash' in nat: return [('crash', nat['crash'])]
        st = nat['strict']
        if 'panic' in st: return [('panic:strict:' + classify_panic(st['panic']), 'from_str panics on %r: %s' % (s, st['panic'][:200]))]
        if w['model'] is None:
            if st['ok']: v.append(('accepts-malformed:' + w.get('bad', '?'), 'strict reader accepts %r although one line is neither field, continuation, comment nor blank' % s))
            return v
        model = [[(k, lines) for k, lines in p] for p in w['model']]
        if not st['ok']:
            return [('rejects-wellformed:' + reject_class(w, st), 'strict reader rejects well-formed %r: %s' % (s, st.get('err', '')[:120]))]
        def acc(lines):
            vs = ['\n'.join(lines)]
            if len(lines) > 1 and lines[0] == '': vs.append('\n'.join(lines[1:]))
            return vs
        got = st['paras']
        okc = len(got) == len(model) and all(len(a) == len(b) and all(x[0] == y[0] and x[1] in acc(y[1]) for x, y in zip(a, b)) for a, b in zip(got, model))
        if not okc: v.append(('wrong-content', 'document %r read as %r, expected %r' % (s, got, model)))
        else:
            q = w['q']
            for lk, mp in zip(st['lookups'], model):
                names = [k for k, _ in mp]
                if lk['keys'] != names: v.append(('wrong-keys', 'keys() = %r, expected %r in %r' % (lk['keys'], names, s)))
                for k in set(names) | {q}:
                    idx = [j for j, n in enumerate(names) if n == k]
                    g = lk['get'].get(k)
                    if idx:
                        if g is None or g not in acc(mp[idx[0]][1]): v.append(('wrong-get', 'get(%r) = %r in %r' % (k, g, s)))
                    elif g is not None: v.append(('wrong-get', 'get(%r) = %r for an absent name in %r' % (k, g, s)))
                    ga = lk['get_all'].get(k, [])
                    if len(ga) != len(idx) or any(a not in acc(mp[j][1]) for a, j in zip(ga, idx)): v.append(('wrong-get_all', 'get_all(%r) = %r in %r' % (k, ga, s)))
                    if lk['contains'].get(k) != bool(idx): v.append(('wrong-contains_key', 'contains_key(%r) = %r in %r' % (k, lk['contains'].get(k), s)))
            pr = nat['para']
            if 'panic' in pr: v.append(('panic:para', 'Paragraph::from_str panics on %r' % s))
            elif model:
                if not pr['ok'] or not (len(pr['items']) == len(model[0]) and all(x[0] == y[0] and x[1] in acc(y[1]) for x, y in zip(pr['items'], model[0]))):
                    v.append(('wrong-paragraph-from_str', 'Paragraph::from_str(%r) = %r' % (s, pr)))
            elif pr['ok']: v.append(('wrong-paragraph-from_str', 'Paragraph::from_str accepts a document without paragraphs %r' % s))
        return v

    def compare(self, case, pred, nat):
        st = nat['strict']
        if 'panic' in st: return ['native panics']
        if pred['ok'] != st['ok']: return ['strict ok %r vs %r' % (pred['ok'], st['ok'])]
        if pred['ok'] and 'paras' in pred and pred['paras'] != st['paras']: return ['paras %r vs %r' % (pred['paras'], st['paras'])]
        return []

    def coverage_keys(self, case, w, nat):
        out = ['shape=' + case['shape']]
        for k in (w.get('kinds') or []): out.append('line=' + k)
        if w.get('model') is not None: out.append('paragraphs=%d' % len(w['model']))
        return out


def reject_class(w, st):
    """structural class of a rejected well-formed document (for known-finding matching)"""
    kinds = w.get('kinds') or []
    s = w['s']
    lines = s.split('\n')
    # comment as the last line of a paragraph (followed by blank line or EOF)
    for i, k in enumerate(kinds):
        if k == 'comment' and i > 0 and kinds[i-1] in ('field', 'cont') and (i + 1 == len(kinds) or kinds[i+1] == 'blank'):
            return 'comment-ends-paragraph'
    for i, k in enumerate(kinds):
        if k == 'comment' and i > 0 and kinds[i-1] == 'comment':
            # run of comments ending a paragraph
            j = i
            while j < len(kinds) and kinds[j] == 'comment': j += 1
            b = i
            while b >= 0 and kinds[b] == 'comment': b -= 1
            if b >= 0 and kinds[b] in ('field', 'cont') and (j == len(kinds) or kinds[j] == 'blank'): return 'comment-ends-paragraph'
    for i, k in enumerate(kinds):
        if k == 'cont' and i < len(lines) and lines[i].lstrip(' \t').startswith(':'): return 'continuation-starts-with-colon'
    return 'other'


HARNESS = C03()
