"""C08: lossy deb822 values print to text that reads back equal; edits follow a list."""
import z3
from mirsym.runner import Harness
from mirsym.values import *
from mirsym.models_core import veq
from mirsym.models_iter import getiter, drain
from .common import *
from .deb822_common import *
from .c01 import classify_panic


def gen_name(e, maxlen):
    n = e.choose('nl', maxlen) + 1
    return Str([e.fresh_ascii('k', keyinit)] + [e.fresh_ascii('k', keych) for _ in range(n - 1)])


def gen_line(e, maxlen, first):
    n = e.choose('ll', maxlen) + 1
    out = []
    for i in range(n):
        c = e.fresh_char('v'); e.assume(z3.And(c != 10, c != 13))
        if i == 0:
            e.assume(z3.And(c != 32, c != 9))
            if not first: e.assume(c != 35)
        out.append(c)
    return out


def gen_value(e, maxlines, maxlen):
    """canonical value: '' | one line | '' + LF + lines | k lines"""
    shape = e.choose('shape', 4)
    if shape == 0: lines = []
    elif shape == 1: lines = [gen_line(e, maxlen, True)]
    elif shape == 2: lines = [[]] + [gen_line(e, maxlen, False) for _ in range(e.choose('nl', maxlines - 1) + 1)] if maxlines > 1 else [gen_line(e, maxlen, True)]
    else: lines = [gen_line(e, maxlen, True)] + [gen_line(e, maxlen, False) for _ in range(e.choose('nl', maxlines - 1) + 1)] if maxlines > 1 else [gen_line(e, maxlen, True)]
    return Str(model_value(lines)), lines


def mk_para(fields): return Agg('Paragraph', [VecV([Agg('Field', [k, v]) for k, v in fields])])


class C08(Harness):
    id = 'C08'
    op = 'lossy_doc'
    fuel = 80000
    bounds = {'quick': {'note': 'round trip: (1 paragraph x <=2 fields) and (2 paragraphs x 1 field)', 'paragraphs': 2, 'fields': 2, 'name_chars': 2, 'value_lines': 2, 'line_chars': 1, 'history': 3, 'edit_fields': 2},
              'thorough': {'paragraphs': 3, 'fields': 3, 'name_chars': 2, 'value_lines': 3, 'line_chars': 2, 'history': 4, 'edit_fields': 3}}
    assumptions = ['names: 1..n printable ASCII characters without ":" and space, first not "-" or "#"',
                   'values: empty | one line | empty first line followed by 1..k lines | 1+k lines; lines are non-empty, contain neither LF nor CR, do not start with space/tab; continuation lines do not start with "#"',
                   'every paragraph has at least one field (an empty paragraph prints as nothing)',
                   'edit histories: H operations from {set, insert, remove} with names drawn from the paragraph\'s names and one fresh name; get/len/iter observed after every step']

    def cases(self, tier):
        b = self.bounds[tier]
        if tier == 'quick':
            return [dict(b, fam='roundtrip', paragraphs=1, fields=2, order=1), dict(b, fam='roundtrip', paragraphs=2, fields=1, name_chars=1, pmin=2, order=1), dict(b, fam='edits', order=0)]
        return [dict(b, fam='roundtrip', order=1), dict(b, fam='edits', order=0)]

    def run(self, e, case):
        if case['fam'] == 'edits': return self.run_edits(e, case)
        P = case['pmin'] if case.get('pmin') else e.choose('P', case['paragraphs']) + 1
        paras = []; model = []
        for _ in range(P):
            F = e.choose('F', case['fields']) + 1
            fs = []
            for _ in range(F):
                k = gen_name(e, case['name_chars']); v, lines = gen_value(e, case['value_lines'], case['line_chars'])
                fs.append((k, v))
            paras.append(fs)
        e.inputs['paras'] = [[[k, v] for k, v in p] for p in paras]
        doc = Agg('Deb822', [VecV([mk_para(p) for p in paras])])
        text = e.call_path('deb822', '<lossy::Deb822 as ToString>::to_string', [Ref([doc], [0])])
        checks = []
        back = e.call_path('deb822', '<lossy::Deb822 as FromStr>::from_str', [text])
        pred = {'text': text, 'back_ok': back.variant == 'Ok'}
        if back.variant != 'Ok': return {'pred': pred, 'checks': [('lossy reader accepts the printed document', False)]}
        checks.append(('lossy reader turns the text back into an equal value', veq(e, back.slots[0], doc)))
        ll = e.call_path('deb822', '<lossless::Deb822 as FromStr>::from_str', [text])
        pred['lossless_ok'] = ll.variant == 'Ok'
        if ll.variant != 'Ok': checks.append(('lossless reader accepts the printed document', False))
        else:
            got = read_lossless(e, ll.slots[0])
            # the lossless reader drops a leading empty line (VALUE tokens only): compare non-blank lines
            from .c06 import content_agree
            checks.append(('lossless reader shows the same content', content_agree(e, got, paras)))
        # exactly one blank line between paragraphs: the text never contains three consecutive LF and has P-1 blank lines
        t = text.chars
        checks.append(('paragraphs separated by exactly one blank line', b_and(*[b_not(b_and(s_eq(t[i], 10), s_eq(t[i+1], 10), s_eq(t[i+2], 10))) for i in range(len(t) - 2)])))
        if P == 1:
            pt = e.call_path('deb822', '<lossy::Paragraph as ToString>::to_string', [Ref([mk_para(paras[0])], [0])])
            pb = e.call_path('deb822', '<lossy::Paragraph as FromStr>::from_str', [pt])
            checks.append(('Paragraph round trip', pb.variant == 'Ok' and veq(e, pb.slots[0], mk_para(paras[0]))))
        return {'pred': pred, 'checks': checks}

    def run_edits(self, e, case):
        F = e.choose('F', case['edit_fields'] + 1)
        fields = [(gen_name(e, 1), Str([e.fresh_ascii('v', lower)])) for _ in range(F)]
        fresh = gen_name(e, 1); probe = gen_name(e, 1)
        p = mk_para(fields); ref = Ref([p], [0])
        model = [[k, v] for k, v in fields]
        e.inputs.update(fields=[[k, v] for k, v in fields], probe=probe, ops=[])
        checks = []
        def observe(step):
            items = [(x.slots[0], x.slots[1]) for x in drain(e, getiter(e, e.call_path('deb822', 'lossy::Paragraph::iter', [ref])))]
            ok = len(items) == len(model)
            checks.append(('step %d: iter() == list model' % step, b_and(*[b_and(veq(e, a, m[0]), veq(e, b, m[1])) for (a, b), m in zip(items, model)]) if ok else False))
            checks.append(('step %d: len()' % step, e.call_path('deb822', 'lossy::Paragraph::len', [ref]) == len(model)))
            g = e.call_path('deb822', 'lossy::Paragraph::get', [ref, probe])
            first = None
            for m in model:
                if e.branch(veq(e, m[0], probe)): first = m; break
            if first is None: checks.append(('step %d: get(absent) is None' % step, g.variant == 'None'))
            else: checks.append(('step %d: get returns the first field of the name' % step, g.variant == 'Some' and veq(e, g.slots[0], first[1])))
        observe(0)
        names = [k for k, _ in fields] + [fresh]
        for h in range(e.choose('H', case['history']) + 1):
            op = ['set', 'insert', 'remove'][e.choose('op', 3)]
            nm = names[e.choose('name', len(names))]
            val = Str([e.fresh_ascii('w', lower)])
            e.inputs['ops'].append([op, nm, val])
            if op == 'set':
                e.call_path('deb822', 'lossy::Paragraph::set', [ref, nm, val])
                hit = None
                for m in model:
                    if e.branch(veq(e, m[0], nm)): hit = m; break
                if hit is None: model.append([nm, val])
                else: hit[1] = val
            elif op == 'insert':
                e.call_path('deb822', 'lossy::Paragraph::insert', [ref, nm, val]); model.append([nm, val])
            else:
                e.call_path('deb822', 'lossy::Paragraph::remove', [ref, nm])
                model[:] = [m for m in model if not e.branch(veq(e, m[0], nm))]
            observe(h + 1)
        return {'pred': {'final': [[m[0], m[1]] for m in model]}, 'checks': checks}

    def request(self, case, w):
        if case['fam'] == 'edits': return {'op': 'lossy_edits', 'fields': w['fields'], 'ops': w['ops'], 'probe': w['probe']}
        return {'op': 'lossy_doc', 'paras': w['paras']}

    def oracle(self, case, w, nat):
        if nat.get('timeout'): return [('hang', 'native run does not terminate on %r' % w)]
        if 'crash' in nat: return [('crash', nat['crash'])]
        if 'panic' in nat: return [('panic:' + classify_panic(nat['panic']), 'panic on %r: %s' % (w, nat['panic'][:150]))]
        v = []
        if case['fam'] == 'edits':
            model = [list(f) for f in w['fields']]
            def chk(step, st):
                if [list(x) for x in st['items']] != model: v.append(('edit-list:' + (w['ops'][step-1][0] if step else 'initial'), 'after %r the paragraph is %r, list model %r' % (w['ops'][:step], st['items'], model)))
                if st['len'] != len(model): v.append(('edit-len', 'len() = %r, model has %d' % (st['len'], len(model))))
                exp = next((m[1] for m in model if m[0] == w['probe']), None)
                if st['get'] != exp: v.append(('edit-get', 'get(%r) = %r, expected %r after %r' % (w['probe'], st['get'], exp, w['ops'][:step])))
            chk(0, nat['states'][0])
            for i, (op, nm, val) in enumerate(w['ops']):
                if op == 'set':
                    hit = next((m for m in model if m[0] == nm), None)
                    if hit is None: model.append([nm, val])
                    else: hit[1] = val
                elif op == 'insert': model.append([nm, val])
                else: model = [m for m in model if m[0] != nm]
                chk(i + 1, nat['states'][i + 1])
            return v
        paras = w['paras']; b = nat['back']; l = nat['lossless']
        if 'panic' in b: return [('panic:lossy:' + classify_panic(b['panic']), 'lossy reader panics on printed text %r' % nat['text'])]
        if not b['ok']: return [('print-rejected:lossy', 'printed document %r is rejected by the lossy reader: %s' % (nat['text'], b.get('err')))]
        if not b['eq']: v.append(('roundtrip-differs:' + rt_class(paras), 'document %r prints %r which reads back as %r' % (paras, nat['text'], b['paras'])))
        if 'panic' in l: v.append(('panic:lossless', 'lossless reader panics on printed text %r' % nat['text']))
        elif not l['ok']: v.append(('print-rejected:lossless', 'printed document %r is rejected by the lossless reader: %s' % (nat['text'], l.get('err'))))
        else:
            A = [[(k, py_nonblank_lines(x)) for k, x in p] for p in l['paras']]; B = [[(k, py_nonblank_lines(x)) for k, x in p] for p in paras]
            if A != B: v.append(('lossless-differs', 'lossless reader shows %r for document %r' % (l['paras'], paras)))
        if '\n\n\n' in nat['text'] or nat['text'].count('\n\n') != len(paras) - 1: v.append(('separator', 'paragraphs not separated by exactly one blank line in %r' % nat['text']))
        pb = nat.get('para_back')
        if pb and ('panic' in pb or not pb.get('ok') or not pb.get('eq')): v.append(('paragraph-roundtrip', 'Paragraph round trip fails for %r: %r' % (paras[0], pb)))
        return v

    def compare(self, case, pred, nat):
        if case['fam'] == 'edits':
            if 'states' in nat and [list(x) for x in nat['states'][-1]['items']] != [list(x) for x in pred['final']]: return ['final state %r vs %r' % (pred['final'], nat['states'][-1]['items'])]
            return []
        if pred['text'] != nat.get('text'): return ['text %r vs %r' % (pred['text'], nat.get('text'))]
        return []

    def coverage_keys(self, case, w, nat):
        if case['fam'] == 'edits': return ['family=edits'] + ['op=' + o[0] for o in w['ops']]
        return ['family=roundtrip', 'paragraphs=%d' % len(w['paras'])] + ['value=' + ('empty' if v == '' else 'multi-empty-first' if v.startswith('\n') else 'multi' if '\n' in v else 'single') for p in w['paras'] for _, v in p]


def rt_class(paras):
    for p in paras:
        for k, v in p:
            if v.startswith('\n'): return 'empty-first-line'
            if '\n' in v: return 'multi-line'
    return 'single-line'


HARNESS = C08()
