"""C10: well-formed relationship fields are read exactly as written, by both readers."""
import z3
from mirsym.runner import Harness
from mirsym.values import *
from mirsym.models_core import veq
from .common import *
from .rel_common import *
from .c01 import classify_panic

CASES = {
    'basic':    {'entries': 2, 'alternatives': 1, 'archqual': True, 'version_kinds': 1, 'ws_styles': 2},
    'alts':     {'entries': 1, 'alternatives': 2, 'archqual': True, 'version_kinds': 1, 'ws_styles': 2},
    'versions': {'entries': 1, 'alternatives': 1, 'version_kinds': 4, 'ws_styles': 2, 'ident_chars': 1},
    'archs':    {'entries': 1, 'alternatives': 1, 'archs': 2, 'version_kinds': 1, 'ws_styles': 5},
    'profiles': {'entries': 1, 'alternatives': 1, 'profile_groups': 2, 'profile_terms': 2, 'no_version': True, 'ws_styles': 5},
    'pre-comma': {'entries': 3, 'alternatives': 1, 'no_version': True, 'pre_comma': True, 'ws_styles': 4},
    'field':    {'entries': 2, 'alternatives': 1, 'substvars': True, 'empty_entries': True, 'trailing_comma': True, 'version_kinds': 1, 'ws_styles': 4},
}
THOROUGH = {
    'basic':    {'entries': 2, 'alternatives': 2, 'archqual': True, 'version_kinds': 4, 'ws_styles': 4, 'ident_chars': 2},
    'combined': {'entries': 1, 'alternatives': 2, 'archqual': True, 'archs': 2, 'profile_groups': 1, 'profile_terms': 2, 'version_kinds': 2, 'ws_styles': 2},
}


class C10(Harness):
    id = 'C10'
    op = 'relations'
    crates = ('control',)
    fuel = 200000
    bounds = {'quick': CASES, 'thorough': dict(CASES, **THOROUGH)}
    assumptions = ['fields are generated from the Policy 7.1 grammar: comma separated entries (optionally empty entries, trailing comma), "|" alternatives, name[:archqual] [(op version)] [[!]arch ...] [<[!]profile ...> ...], ${substvars} where enabled',
                   'identifier characters are symbolic within [A-Za-z0-9.+~-] (first character alphanumeric); versions: digit | digit:digit | digit~x | digit-digit with symbolic digits',
                   'whitespace layout is one of 5 styles applied at every optional position: single space, compact, tab, newline+space, bare newline; the pre-comma family also puts a blank between an entry and the comma after it',
                   'the negation of an architecture is expected to be exposed as a leading "!" of the architecture string']

    def cases(self, tier):
        return [{'name': k, 'cfg': v, 'order': i} for i, (k, v) in enumerate(self.bounds[tier].items())]

    def run(self, e, case):
        g = RelGen(e, case['cfg'])
        text, entries = g.field()
        s = Str(text)
        has_sv = any(isinstance(en, tuple) for en in entries)
        e.inputs.update(s=s, spec=spec_json(entries), substvars=[Str(en[1]) for en in entries if isinstance(en, tuple)], style=g.style)
        checks = []; pred = {}
        r = e.call_path('control', RL + 'Relations::parse_relaxed', [s, True])
        rel, errs = r.slots
        nerr = len(e.deref(errs).slots); pred['nerrors'] = nerr
        checks.append(('lossless reader reports no error', nerr == 0))
        got, sv = read_lossless_field(e, rel)
        checks.append(('lossless structure == what was written', structure_cond(e, got, entries, True)))
        want_sv = [en[1] for en in entries if isinstance(en, tuple)]
        checks.append(('substvars() == what was written', len(sv) == len(want_sv) and b_and(*[veq(e, a, Str(b)) for a, b in zip(sv, want_sv)])))
        if not has_sv:
            st = e.call_path('control', '<%sRelations as FromStr>::from_str' % RL, [s])
            checks.append(('strict lossless reader accepts', st.variant == 'Ok'))
            ly = e.call_path('control', '<lossy::relations::Relations as FromStr>::from_str', [s])
            pred['lossy_ok'] = ly.variant == 'Ok'
            if ly.variant != 'Ok': checks.append(('lossy reader accepts', False))
            else: checks.append(('lossy structure == what was written', structure_cond(e, read_lossy_field(e, ly.slots[0]), entries, True)))
        return {'pred': pred, 'checks': checks}

    def oracle(self, case, w, nat):
        s = w['s']
        if nat.get('timeout'): return [('hang', 'native run does not terminate on %r' % s)]
        if 'crash' in nat: return [('crash', nat['crash'])]
        v = []
        feats = sorted({f for en in w['spec'] if isinstance(en, list) for r in en for f in r['features']})
        style = ['spaces', 'compact', 'tabs', 'newlines', 'bare-newline', 'alternating'][w['style']]
        tag = ','.join(feats) or 'plain'
        want = [en for en in w['spec'] if isinstance(en, list)]
        rt = nat['relaxed_true']
        if 'panic' in rt: v.append(('lossless:panic:%s:%s' % (classify_panic(rt['panic']), tag), 'lossless reader panics on %r: %s' % (s, rt['panic'][:120])))
        else:
            st = rt['structure']
            if rt['nerrors']: v.append(('lossless:rejected:%s:%s' % (tag, style), 'lossless reader reports errors on well-formed %r' % s))
            elif 'panic' in st: v.append(('lossless:accessor-panic:%s:%s' % (classify_panic(st['panic']), tag), 'a lossless accessor panics on %r: %s' % (s, st['panic'][:120])))
            else:
                for d in diff_structure(st['entries'], want): v.append(('lossless:wrong-%s:%s' % (d, tag), 'lossless reader reads %r as %r' % (s, st['entries'])))
                if st['substvars'] != w['substvars']: v.append(('lossless:wrong-substvars', 'substvars() = %r for %r' % (st['substvars'], s)))
        if not w['substvars']:
            stn = nat['strict']
            if 'panic' not in stn and not stn['ok'] and not ('panic' in rt or rt['nerrors']): v.append(('lossless:strict-rejects', 'strict reader rejects %r' % s))
            ly = nat['lossy']
            if 'panic' in ly: v.append(('lossy:panic:%s:%s' % (classify_panic(ly['panic']), tag), 'lossy reader panics on %r: %s' % (s, ly['panic'][:120])))
            elif not ly['ok']: v.append(('lossy:rejected:%s:%s' % (tag, style), 'lossy reader rejects well-formed %r: %s' % (s, ly.get('err', '')[:80])))
            else:
                for d in diff_structure(ly['entries'], want): v.append(('lossy:wrong-%s:%s' % (d, tag), 'lossy reader reads %r as %r' % (s, ly['entries'])))
        return v

    def compare(self, case, pred, nat):
        rt = nat['relaxed_true']
        if 'panic' in rt or 'panic' in rt.get('structure', {}): return []
        d = []
        if pred.get('nerrors') != rt['nerrors']: d.append('nerrors %r vs %r' % (pred.get('nerrors'), rt['nerrors']))
        if 'lossy_ok' in pred and 'panic' not in nat['lossy'] and pred['lossy_ok'] != nat['lossy']['ok']: d.append('lossy ok %r vs %r' % (pred['lossy_ok'], nat['lossy']['ok']))
        return d

    def coverage_keys(self, case, w, nat):
        return ['case=' + case['name'], 'style=%d' % w['style']] + ['feature=' + f for en in w['spec'] if isinstance(en, list) for r in en for f in r['features']]


def diff_structure(got, want):
    """every differing aspect between a native structure and the generator's spec (sorted list)"""
    if len(got) != len(want): return ['entry-count']
    out = set()
    for ga, wa in zip(got, want):
        if len(ga) != len(wa): return ['alternative-count']
        for g, w in zip(ga, wa):
            if 'panic' in g: out.add('accessor-panic'); continue
            if g['name'] != w['name']: out.add('name')
            if g['archqual'] != w['archqual']: out.add('archqual')
            wv = [w['version'][0], w['version'][1]] if w['version'] else None
            if g['version'] != wv: out.add('version')
            wa_ = [('!' if n else '') + a for n, a in w['archs']] if w['archs'] is not None else None
            if g['architectures'] != wa_:
                # negation lost but names right is its own aspect
                if wa_ is not None and g['architectures'] == [a.lstrip('!') for a in wa_]: out.add('architectures-negation-lost')
                else: out.add('architectures')
            wp = [[('!' if n else '') + p for n, p in grp] for grp in w['profiles']]
            if g['profiles'] != wp:
                if [x for grp in g['profiles'] for x in grp] == [x for grp in wp for x in grp]: out.add('profiles-grouping')
                else: out.add('profiles')
    return sorted(out)


HARNESS = C10()
