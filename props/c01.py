"""C01: the lossless deb822 reader reproduces every input byte-for-byte."""
import z3
from mirsym.runner import Harness
from mirsym.values import *
from mirsym.models_core import veq
from mirsym.engine import model
from .common import *


class ReadStub:
    """std::io::Read environment stub delivering a fixed text"""
    def __init__(s, text): s.text = text
    def clone_value(s, e): return s


@model('re:^<.* as (std::io::)?Read>::read_to_string$')
def _(e, c, a, raw):
    r = e.deref(a[0])
    if not isinstance(r, ReadStub): raise Unsupported('read_to_string on ' + type(r).__name__)
    cur = e.deref(a[1]); e.set_ref(a[1], Str(cur.chars + r.text.chars))
    return OK(e.length_of(r.text))


class C01(Harness):
    id = 'C01'
    op = 'deb822'
    bounds = {'quick': {'free_text_max_chars': 4}, 'thorough': {'free_text_max_chars': 6}}
    assumptions = ['input = every string of 0..N Unicode scalar values (N per tier); longer inputs are outside the claim',
                   'std::io::Read is an environment stub that delivers exactly the text in one read_to_string call; from_file* are outside the claim']
    def fuel(self, case): return 3000 * (case['n'] + 2)

    def cases(self, tier):
        N = {'quick': 4, 'thorough': 6}[tier]
        return [{'n': n, 'order': n} for n in range(N + 1)]

    def run(self, e, case):
        s = sym_text(e, case['n'])
        e.inputs['s'] = s
        checks = []
        r = e.call_path('deb822', 'lossless::Deb822::from_str_relaxed', [s])
        d, errs = r.slots
        text = call_to_string(e, 'deb822', 'lossless::Deb822', d)
        checks.append(('relaxed print == input', veq(e, text, s)))
        nerr = len(e.deref(errs).slots)
        st = e.call_path('deb822', '<lossless::Deb822 as FromStr>::from_str', [s])
        strict_ok = st.variant == 'Ok'
        checks.append(('strict ok <=> no relaxed errors', strict_ok == (nerr == 0)))
        pred = {'relaxed_text': text, 'nerrors': nerr, 'strict_ok': strict_ok}
        if strict_ok:
            t2 = call_to_string(e, 'deb822', 'lossless::Deb822', st.slots[0])
            checks.append(('strict print == input', veq(e, t2, s)))
        rd = e.call_path('deb822', 'lossless::Deb822::read::<ReadStub>', [ReadStub(s)])
        checks.append(('read ok <=> strict ok', (rd.variant == 'Ok') == strict_ok))
        if rd.variant == 'Ok':
            checks.append(('read print == input', veq(e, call_to_string(e, 'deb822', 'lossless::Deb822', rd.slots[0]), s)))
        rr = e.call_path('deb822', 'lossless::Deb822::read_relaxed::<ReadStub>', [ReadStub(s)])
        checks.append(('read_relaxed ok', rr.variant == 'Ok'))
        if rr.variant == 'Ok':
            d3, errs3 = rr.slots[0].slots
            checks.append(('read_relaxed print == input', veq(e, call_to_string(e, 'deb822', 'lossless::Deb822', d3), s)))
            checks.append(('read_relaxed errors == relaxed errors', len(e.deref(errs3).slots) == nerr))
        return {'pred': pred, 'checks': checks}

    def oracle(self, case, w, nat):
        s = w['s']; v = []
        if nat.get('timeout'): return [('hang:deb822', 'native run exceeded the watchdog on %r' % s)]
        if 'crash' in nat: return [('crash:deb822', nat['crash'])]
        rel = nat['relaxed']; st = nat['strict']
        for name in ('relaxed', 'strict', 'read', 'read_relaxed'):
            if 'panic' in nat[name]:
                v.append(('panic:%s:%s' % (name, classify_panic(nat[name]['panic'])), '%s panics on %r: %s' % (name, s, nat[name]['panic'][:200])))
        if v: return v
        if rel['text'] != s: v.append(('fidelity:relaxed', 'from_str_relaxed(%r) prints %r' % (s, rel['text'])))
        if st['ok'] != (rel['nerrors'] == 0): v.append(('strict-vs-relaxed', 'strict ok=%s but relaxed reports %d errors on %r' % (st['ok'], rel['nerrors'], s)))
        if st['ok'] and st['text'] != s: v.append(('fidelity:strict', 'from_str(%r) prints %r' % (s, st['text'])))
        rd = nat['read']; rr = nat['read_relaxed']
        if rd['ok'] != st['ok']: v.append(('read-vs-strict', 'read ok=%s, from_str ok=%s on %r' % (rd['ok'], st['ok'], s)))
        if rd['ok'] and rd['text'] != s: v.append(('fidelity:read', 'read(%r) prints %r' % (s, rd['text'])))
        if not rr['ok']: v.append(('read_relaxed-err', 'read_relaxed fails on %r' % s))
        elif rr['text'] != s or rr['nerrors'] != rel['nerrors']: v.append(('fidelity:read_relaxed', 'read_relaxed(%r) prints %r' % (s, rr['text'])))
        return v

    def compare(self, case, pred, nat):
        d = []
        if 'panic' in nat['relaxed'] or 'panic' in nat['strict']: return ['native panics, interpreter did not']
        if pred['relaxed_text'] != nat['relaxed']['text']: d.append('relaxed text %r vs %r' % (pred['relaxed_text'], nat['relaxed']['text']))
        if pred['nerrors'] != nat['relaxed']['nerrors']: d.append('nerrors %r vs %r' % (pred['nerrors'], nat['relaxed']['nerrors']))
        if pred['strict_ok'] != nat['strict']['ok']: d.append('strict_ok')
        return d

    def nontrivial(self, case, w): return len(w['s']) >= 1

    def coverage_keys(self, case, w, nat):
        out = ['len=%d' % len(w['s'])]
        for ch in set(w['s']): out.append('class=' + char_class(ch))
        return out


def char_class(ch):
    o = ord(ch)
    if ch == '\n': return 'LF'
    if ch == '\r': return 'CR'
    if ch == ' ': return 'SP'
    if ch == '\t': return 'TAB'
    if ch == ':': return 'colon'
    if ch == '#': return 'hash'
    if ch == '-': return 'minus'
    if o >= 0x80: return 'nonascii%d' % len(ch.encode('utf-8'))
    if o < 0x20 or o == 0x7f: return 'control'
    return 'keychar'


def classify_panic(msg):
    import re
    m = msg.lower()
    if 'char boundary' in m: return 'char-boundary'
    if 'assertion' in m and 'left' in m: return 'assert-eq'
    if 'unwrap' in m and 'none' in m: return 'unwrap-none'
    if 'unwrap' in m and 'err' in m: return 'unwrap-err'
    if 'overflow' in m: return 'overflow'
    if 'out of range' in m or 'out of bounds' in m: return 'bounds'
    if 'immutable' in m: return 'immutable-tree'
    return re.sub(r'[^a-z]+', '-', m)[:40]


HARNESS = C01()
