"""C05: adding, inserting and removing paragraphs behaves like list operations."""
import z3
from mirsym.runner import Harness
from mirsym.values import *
from mirsym.models_core import veq
from .common import *
from .deb822_common import *
from .c01 import classify_panic
from .c04 import gen_segments, field_spans


class C05(Harness):
    id = 'C05'
    op = 'deb822_edit'
    fuel = 250000
    bounds = {'quick': {'cases': [{'lines': 3, 'history': 2}, {'lines': 0, 'history': 3}]},
              'thorough': {'cases': [{'lines': 4, 'history': 2}, {'lines': 3, 'history': 3}, {'lines': 0, 'history': 4}]}}
    assumptions = ['start states: the empty document (Deb822::new) or well-formed documents generated as in C04 (letters as content, comments and blank lines anywhere incl. leading/trailing, final newline optional)',
                   'operations: add_paragraph, insert_paragraph(i), remove_paragraph(i) with i symbolic in 0..=P+1; every new paragraph immediately receives one field (set) so that it is observable',
                   'text locality: an insertion is one contiguous insertion at a line boundary; a removal deletes the paragraph\'s own lines (first field line to its last field/comment line) plus optionally adjacent blank lines']
    oracle_leniency = ['which adjacent blank lines disappear with a removed paragraph is not fixed', 'where a paragraph inserted at position i lands relative to comments between paragraphs is not fixed']

    def cases(self, tier):
        return [dict(c, order=c['lines'] + c['history']) for c in self.bounds[tier]['cases']]

    def run(self, e, case):
        checks = []
        e.inputs['ops'] = []; e.inputs['s'] = None; e.inputs['pairs'] = None
        if case['lines'] == 0:
            segs, npar = [], 0
            e.inputs['s'] = Str([])
            d = e.call_path('deb822', 'lossless::Deb822::new', [])
        else:
            segs, npar = gen_segments(e, case['lines'])
            text = []
            for sg in segs: text += sg['text']
            s = Str(text); e.inputs['s'] = s
            r = e.call_path('deb822', '<lossless::Deb822 as FromStr>::from_str', [s])
            if r.variant != 'Ok': return {'pred': {}, 'checks': [('well-formed start document accepted', False)]}
            d = r.slots[0]
        model = [[] for _ in range(npar)]
        for sg in segs:
            if sg['kind'] == 'field': model[sg['para']].append([Str(sg['name']), Str(model_value(sg['lines']))])
        S = [dict(sg, text=list(sg['text'])) for sg in segs]
        def cat(xs): return [c for sg in xs for c in sg['text']]
        dref = Ref([d], [0])
        texts = []
        H = e.choose('H', case['history']) + 1
        for h in range(H):
            op = ['add_paragraph', 'insert_paragraph', 'remove_paragraph'][e.choose('op', 3)]
            idx = e.choose('idx', len(model) + 2)
            key = Str([e.fresh_ascii('k', keyinit)]); val = Str([e.fresh_ascii('v', lower)])
            rec = {'op': op, 'index': idx, 'key': key if op != 'remove_paragraph' else None, 'value': val}
            e.inputs['ops'].append(rec)
            T0 = Str(cat(S))
            if op == 'remove_paragraph':
                e.call_path('deb822', 'lossless::Deb822::remove_paragraph', [dref, idx])
                T1 = call_to_string(e, 'deb822', 'lossless::Deb822', d)
                if idx < len(model):
                    # candidates: the paragraph's region, plus j following or j preceding blank segments
                    first = next(i for i, sg in enumerate(S) if sg['kind'] == 'field' and sg['para'] == idx)
                    last = max(i for i, sg in enumerate(S) if sg.get('para') == idx)
                    cands = []
                    j = last + 1
                    while True:
                        cands.append(S[:first] + S[j:])
                        if j < len(S) and S[j]['kind'] == 'blank': j += 1
                        else: break
                    j = first
                    while j > 0 and S[j-1]['kind'] == 'blank':
                        j -= 1; cands.append(S[:j] + S[last+1:])
                    conds = [veq(e, T1, Str(cat(c))) for c in cands]
                    checks.append(('step %d: removal deletes the paragraph\'s own lines (and at most adjacent blank lines)' % h, b_or(*conds)))
                    pick = next((c for c, cd in zip(cands, conds) if cd is True or (cd is not False and not e.check(z3.Not(cd)))), cands[0])
                    S = [dict(sg) for sg in pick]
                    for sg in S:
                        if sg.get('para') is not None and sg['para'] > idx: sg['para'] -= 1
                    del model[idx]
                else:
                    checks.append(('step %d: removal beyond the end does nothing' % h, veq(e, T1, T0)))
            else:
                if op == 'add_paragraph': p = e.call_path('deb822', 'lossless::Deb822::add_paragraph', [dref]); pos = len(model)
                else: p = e.call_path('deb822', 'lossless::Deb822::insert_paragraph', [dref, idx]); pos = min(idx, len(model))
                e.call_path('deb822', 'lossless::Paragraph::set', [Ref([p], [0]), key, val])
                model.insert(pos, [[key, val]])
                T1 = call_to_string(e, 'deb822', 'lossless::Deb822', d)
                t1 = list(T1.chars); done = False; conds = []
                for c in range(len(S) + 1):
                    pre, suf = cat(S[:c]), cat(S[c:])
                    if len(t1) < len(pre) + len(suf): continue
                    cd = b_and(veq(e, Str(t1[:len(pre)]), Str(pre)), veq(e, Str(t1[len(t1) - len(suf):]), Str(suf))); conds.append(cd)
                    if cd is True or (cd is not False and not e.check(z3.Not(cd))):
                        X = t1[len(pre):len(t1) - len(suf)]
                        for sg in S:
                            if sg.get('para') is not None and sg['para'] >= pos: sg['para'] += 1
                        # split X into leading blank lines / the new field / trailing blank lines as one opaque segment group
                        # X = leading newlines (line terminator / separators) + the new field line + trailing separators
                        a = 0
                        while a < len(X) and isinstance(X[a], int) and X[a] == 10: a += 1
                        b = a
                        while b < len(X) and not (isinstance(X[b], int) and X[b] == 10): b += 1
                        b = min(b + 1, len(X))
                        parts = [{'kind': 'blank', 'para': None, 'text': [10]} for _ in range(a)]
                        parts.append({'kind': 'field', 'para': pos, 'text': X[a:b], 'name': list(key.chars), 'lines': [list(val.chars)]})
                        parts += [{'kind': 'blank', 'para': None, 'text': [ch]} for ch in X[b:]]
                        S[c:c] = parts
                        done = True; break
                checks.append(('step %d: insertion is one contiguous insertion at a line boundary' % h, True if done else b_or(*conds)))
            want = [[(m[0].chars, [m[1].chars]) for m in p] for p in model]
            checks.append(('step %d: paragraphs() == list model' % h, content_equal_cond(e, read_lossless(e, d), want)))
            rr = e.call_path('deb822', '<lossless::Deb822 as FromStr>::from_str', [T1])
            if rr.variant != 'Ok': checks.append(('step %d: printed document re-reads without error' % h, False))
            else: checks.append(('step %d: re-read paragraphs == list model' % h, content_equal_cond(e, read_lossless(e, rr.slots[0]), want)))
            texts.append(T1)
        return {'pred': {'texts': texts}, 'checks': checks}

    def request(self, case, w): return {'op': 'deb822_edit', 's': w['s'] or '', 'ops': w['ops']}

    def oracle(self, case, w, nat):
        if nat.get('timeout'): return [('hang', 'edit history does not terminate: %r' % w)]
        if 'crash' in nat: return [('crash', nat['crash'])]
        if 'panic' in nat: return [('panic:' + classify_panic(nat['panic']), 'panic: %s on %r' % (nat['panic'][:150], w))]
        if 'parse_error' in nat: return [('start-rejected', 'well-formed start document %r rejected: %s' % (w['s'], nat['parse_error']))]
        v = []; states = nat['states']
        model = [[list(kv) for kv in p] for p in states[0]['paras']]
        prev = states[0]['text']
        for i, op in enumerate(w['ops']):
            if i + 1 >= len(states): break
            st = states[i + 1]
            if 'panic' in st: return [('panic:%s:%s' % (op['op'], classify_panic(st['panic'])), '%s(%r) panics: %s on %r' % (op['op'], op['index'], st['panic'][:120], prev))]
            T1 = st['text']; cls = op['op'] + ':' + doc_class(prev)
            if op['op'] == 'remove_paragraph':
                if op['index'] < len(model):
                    spans, regions = field_spans(prev)
                    a, b = regions[op['index']]
                    ok = False
                    # region plus following / preceding blank lines
                    ends = [b]; x = b
                    while prev[x:x+1] == '\n': x += 1; ends.append(x)
                    starts = [a]; y = a
                    while y > 0 and prev[y-1:y] == '\n' and (y == 1 or prev[y-2:y-1] == '\n'): y -= 1; starts.append(y)
                    ok = any(T1 == prev[:a] + prev[e_:] for e_ in ends) or any(T1 == prev[:s_] + prev[b:] for s_ in starts)
                    if not ok: v.append(('locality:' + cls, 'remove_paragraph(%d) changed other text: %r -> %r' % (op['index'], prev, T1)))
                    del model[op['index']]
                elif T1 != prev: v.append(('locality:' + cls, 'remove_paragraph(%d) beyond the end changed the text: %r -> %r' % (op['index'], prev, T1)))
            else:
                pos = len(model) if op['op'] == 'add_paragraph' else min(op['index'], len(model))
                model.insert(pos, [[op['key'], op['value']]])
                ok = any(T1.startswith(prev[:c]) and T1.endswith(prev[c:]) and len(T1) >= len(prev) for c in range(len(prev) + 1) if c == 0 or c == len(prev) or prev[c-1] == '\n')
                if not ok: v.append(('locality:' + cls, '%s(%r) changed existing text: %r -> %r' % (op['op'], op['index'], prev, T1)))
            if st['paras'] != model: v.insert(0, ('list-semantics:' + cls, 'after %r on %r the document has paragraphs %r, list model %r' % (w['ops'][:i+1], states[0]['text'], st['paras'], model)))
            rp = st['reparse']
            if 'panic' in rp or not rp.get('ok'): v.append(('reparse-fails:' + cls, 'printed document %r does not re-read: %r' % (T1, rp)))
            elif rp['paras'] != st['paras']: v.append(('reparse-differs:' + cls, 'printed document %r re-reads as %r, live object reports %r' % (T1, rp['paras'], st['paras'])))
            if v: return v
            prev = T1
        return v

    def compare(self, case, pred, nat):
        if 'states' not in nat: return []
        sts = nat['states'][1:]
        if any('panic' in s for s in sts): return ['native panics']
        for i, (t, s) in enumerate(zip(pred.get('texts', []), sts)):
            if t != s['text']: return ['text after step %d: %r vs %r' % (i, t, s['text'])]
        return []

    def coverage_keys(self, case, w, nat): return ['start=' + ('empty' if not w['s'] else 'parsed')] + ['op=' + o['op'] for o in w['ops']]


def doc_class(prev):
    if prev == '': return 'empty-document'
    if not prev.endswith('\n'): return 'no-final-newline'
    if prev.lstrip('\n').startswith('#') or '\n#' in prev: return 'with-comment'
    if prev.startswith('\n') or prev.endswith('\n\n') or '\n\n\n' in prev: return 'extra-blank-lines'
    return 'plain'


HARNESS = C05()
