"""C17: copyright lookup - last matching Files paragraph wins; DEP-5 globs and licences; lossless == lossy; machine-readable gate."""
import re, json
import z3
from mirsym.runner import Harness
from mirsym.values import *
from mirsym.models_core import veq
from mirsym.models_regex import regex_find
from .common import *
from .c01 import classify_panic

HEAD = 'Format: https://www.debian.org/doc/packaging-manuals/copyright-format/1.0/\n'
SPECIAL = (42, 63, 92)      # * ? \


# ---- reference glob matcher (DEP-5), symbolic and concrete ------------------------------------------------------
def ref_match(tokens, path):
    """tokens: [('star',) | ('q',) | ('lit', c)]; path: list of chars (ints / z3 Ints); returns bool / z3 Bool:
    the pattern matches the WHOLE path; '*' any run (also '/'), '?' exactly one character, literals themselves"""
    n, m = len(tokens), len(path)
    memo = {}
    def go(i, j):
        k = (i, j)
        if k in memo: return memo[k]
        if i == n: r = (j == m)
        else:
            t = tokens[i]
            if t[0] == 'star': r = b_or(*[go(i + 1, j2) for j2 in range(j, m + 1)])
            elif j >= m: r = False
            elif t[0] == 'q': r = go(i + 1, j + 1)
            else: r = b_and(s_eq(t[1], path[j]), go(i + 1, j + 1))
        memo[k] = r
        return r
    return go(0, 0)


def glob_tokens(text):
    """concrete pattern text -> tokens, or None when it has an invalid escape"""
    out = []; i = 0
    while i < len(text):
        c = text[i]
        if c == '*': out.append(('star',))
        elif c == '?': out.append(('q',))
        elif c == '\\':
            if i + 1 >= len(text) or text[i + 1] not in '*?\\': return None
            out.append(('lit', ord(text[i + 1]))); i += 1
        else: out.append(('lit', ord(c)))
        i += 1
    return out


def ref_match_text(pattern, path):
    t = glob_tokens(pattern)
    if t is None: return None
    return bool(ref_match(t, [ord(c) for c in path]))


def lit_ok(c):
    """pattern literal: printable non-blank, not one of * ? backslash; covers '/', every regex metacharacter, some non-ASCII"""
    return z3.And(z3.Or(z3.And(c >= 0x21, c <= 0x7e), z3.And(c >= 0xa1, c <= 0x17f)), c != 42, c != 63, c != 92)


def gen_pattern(e, maxlen, name='g', minlen=1):
    """-> (chars of the pattern text, tokens).  Each position: '*', '?', escaped special, or a symbolic literal"""
    n = e.choose(name + 'len', maxlen - minlen + 1) + minlen
    chars = []; toks = []
    for i in range(n):
        k = e.choose(name + 'k', 4)
        if k == 0: chars.append(42); toks.append(('star',))
        elif k == 1: chars.append(63); toks.append(('q',))
        elif k == 2:
            c = e.fresh_int(name + 'e'); e.assume(z3.Or(c == 42, c == 63, c == 92))
            chars += [92, c]; toks.append(('lit', c))
        else:
            c = e.fresh_int(name + 'c'); e.assume(lit_ok(c)); chars.append(c); toks.append(('lit', c))
    return chars, toks


def gen_path(e, maxlen, name='p'):
    n = e.choose(name + 'len', maxlen + 1)
    out = []
    for i in range(n):
        c = e.fresh_int(name); e.assume(z3.And(c >= 1, c <= 0x17f)); out.append(c)
    return out


CASES = {
    'quick': [
        {'fam': 'glob', 'plen': 3, 'pathlen': 3},
        {'fam': 'lookup', 'paras': 2, 'patterns': 2, 'plen': 1, 'pathlen': 1, 'multi_first_only': True, 'seps': 2},
        {'fam': 'lookup3', 'paras': 3, 'patterns': 1, 'plen': 1, 'pathlen': 1},
        {'fam': 'lookup', 'paras': 2, 'patterns': 1, 'plen': 1, 'pathlen': 3, 'tag': 'longpath'},
        {'fam': 'lookup', 'paras': 2, 'patterns': 2, 'plen': 1, 'pathlen': 2, 'multi_first_only': True, 'seps': 1, 'tag': 'multi-longpath'},
        {'fam': 'license'},
        {'fam': 'gate'},
    ],
    'thorough': [
        {'fam': 'glob', 'plen': 4, 'pathlen': 4},
        {'fam': 'lookup', 'paras': 2, 'patterns': 2, 'plen': 2, 'pathlen': 2},
        {'fam': 'lookup3', 'paras': 3, 'patterns': 2, 'plen': 1, 'pathlen': 2},
        {'fam': 'lookup', 'paras': 2, 'patterns': 3, 'plen': 1, 'pathlen': 2, 'multi_first_only': True, 'seps': 1, 'tag': 'multi3-longpath'},
        {'fam': 'license'},
        {'fam': 'gate'},
    ],
}

SEPS = [[32], [10, 32], [9], [32, 32]]      # between two patterns of one Files field
LIC_FORMS = ['name', 'named']


def lic_value(form, name, body='T'):
    """text of a License field value (after 'License:')"""
    if form == 'name': return [32] + list(name)
    if form == 'named': return [32] + list(name) + [10, 32] + [ord(c) for c in body]
    return [10, 32] + [ord(c) for c in body]       # text only: empty first line


class C17(Harness):
    id = 'C17'
    op = 'copyright_lookup'
    crates = ('deb822', 'copyright')
    fuel = 600000
    bounds = CASES
    assumptions = ['glob family: patterns of 1..plen positions, each position one of: *, ?, an escaped special (\\* \\? \\\\), or a symbolic literal (printable ASCII or U+00A1..U+017F, so every regex metacharacter and "/"); paths of 0..pathlen symbolic characters U+0001..U+017F (newline included)',
                   'patterns with an invalid escape (backslash before another character, or last) are outside the claim: the property gives them no meaning',
                   'lookup families: a header paragraph and 2-3 Files paragraphs, each with a Comment marker, Copyright and License; 1-2 patterns per paragraph separated by space / newline+space / tab / two spaces; the returned paragraph is identified by its marker',
                   'license family: the matching Files paragraph carries a licence name only / name+text (a License field always has the short name on its first line, as DEP-5 requires: the deb822 layer does not keep an empty first line, see C03); 0-2 stand-alone License paragraphs (names symbolic, with or without text) before/after it',
                   'gate family: the text starts with the Format field, a comment, a blank line, another field, or lower-case "format:"; only "starts with Format:" must be accepted',
                   'lossy reader: every Files paragraph has Copyright and License (it requires them)']
    oracle_leniency = ['a text the gate refuses must be refused by both readers; the error kind is checked for the lossless reader only (the lossy reader reports a string)']

    def cases(self, tier): return [dict(c, name=c['fam'] + ('-' + c['tag'] if c.get('tag') else ''), order=i) for i, c in enumerate(CASES[tier])]

    # -- symbolic side ------------------------------------------------------------------------------------------
    def parse_both(self, e, text):
        r1 = e.call_path('copyright', '<lossless::Copyright as FromStr>::from_str', [Str(text)])
        r2 = e.call_path('copyright', '<lossy::Copyright as FromStr>::from_str', [Str(text)])
        return r1, r2

    def comment_lossless(self, e, fp):
        c = e.call_path('copyright', 'lossless::FilesParagraph::comment', [Ref([fp], [0])])
        return c.slots[0] if c.variant == 'Some' else None

    def comment_lossy(self, e, fp):
        fp = e.deref(fp)
        c = fp.slots[3]
        return e.deref(c.slots[0]) if isinstance(c, EnumV) and c.variant == 'Some' else None

    def run(self, e, case):
        fam = case['fam']
        if fam == 'glob': return self.run_glob(e, case)
        if fam in ('lookup', 'lookup3'): return self.run_lookup(e, case)
        if fam == 'license': return self.run_license(e, case)
        return self.run_gate(e, case)

    def run_glob(self, e, case):
        chars, toks = gen_pattern(e, case['plen'])
        path = gen_path(e, case['pathlen'])
        text = [ord(c) for c in HEAD + '\nFiles: '] + chars + [ord(c) for c in '\nCopyright: c\nLicense: L\nComment: f0\n']
        e.inputs.update(s=Str(text), path=Str(path), patterns=[[Str(chars)]], fam='glob')
        rx = e.call_path('copyright', 'glob_to_regex', [Str(chars)])
        got = regex_find(e, e.deref(rx), Str(path)) is not None
        want = ref_match(toks, path)
        return {'pred': {'match': got}, 'checks': [('glob_to_regex(pattern).is_match(path) == DEP-5 reference', s_eq_bool(got, want))]}

    def files_doc(self, e, case):
        """header + Files paragraphs; returns text, [[(chars, toks)]] per paragraph"""
        text = [ord(c) for c in HEAD]
        paras = []
        for i in range(case['paras']):
            np_ = (e.choose('npat', case['patterns']) + 1) if (i == 0 or not case.get('multi_first_only')) else 1
            pats = [gen_pattern(e, case['plen'], 'g%d' % i) for _ in range(np_)]
            sep = SEPS[e.choose('sep', case.get('seps', len(SEPS)))] if np_ > 1 else [32]
            body = []
            for k, (ch, _) in enumerate(pats):
                if k:
                    body += sep
                    # an indented line starting with '#' is a comment for both readers (by design, see C03): not a pattern
                    if 10 in sep and not isinstance(ch[0], int): e.assume(ch[0] != 35)
                body += ch
            text += [ord(c) for c in '\nFiles: '] + body + [ord(c) for c in '\nCopyright: c\nLicense: L%d\nComment: f%d\n' % (i, i)]
            paras.append(pats)
        return text, paras

    def run_lookup(self, e, case):
        text, paras = self.files_doc(e, case)
        path = gen_path(e, case['pathlen'])
        e.inputs.update(s=Str(text), path=Str(path), patterns=[[Str(ch) for ch, _ in p] for p in paras], fam=case['fam'])
        r1, r2 = self.parse_both(e, text)
        checks = [('both readers accept the generated file', r1.variant == 'Ok' and r2.variant == 'Ok')]
        pred = {'lossless_ok': r1.variant == 'Ok', 'lossy_ok': r2.variant == 'Ok'}
        matches = [b_or(*[ref_match(t, path) for _, t in p]) for p in paras]
        # expected index: the last paragraph whose disjunction holds
        pth = e.call_path('copyright', 'Path::new', [Str(path)])
        for label, r, ty, getc in (('lossless', r1, 'lossless::Copyright', self.comment_lossless), ('lossy', r2, 'lossy::Copyright', self.comment_lossy)):
            if r.variant != 'Ok': continue
            f = e.call_path('copyright', ty + '::find_files', [Ref([r.slots[0]], [0]), pth])
            if f.variant == 'Some':
                c = getc(e, f.slots[0])
                idx = None
                if c is not None and c.is_concrete() and re.match(r'^f\d+$', c.py()): idx = int(c.py()[1:])
                pred[label + '_found'] = idx
                if idx is None or idx >= len(paras): checks.append(('%s: find_files returns one of the Files paragraphs' % label, False)); continue
                checks.append(('%s: the returned paragraph matches the path' % label, matches[idx]))
                checks.append(('%s: no later paragraph matches the path' % label, b_not(b_or(*matches[idx + 1:])) if matches[idx + 1:] else True))
            else:
                pred[label + '_found'] = None
                checks.append(('%s: nothing found only when no paragraph matches' % label, b_not(b_or(*matches))))
        return {'pred': pred, 'checks': checks}

    def run_license(self, e, case):
        form = LIC_FORMS[e.choose('form', len(LIC_FORMS))]
        name = [e.fresh_ascii('ln', lambda c: z3.Or(z3.And(c >= 65, c <= 90), c == 45, z3.And(c >= 48, c <= 57)))]
        nlic = e.choose('nlic', 3)
        lics = []
        for i in range(nlic):
            nm = [e.fresh_ascii('sn', lambda c: z3.Or(z3.And(c >= 65, c <= 90), c == 45, z3.And(c >= 48, c <= 57)))]
            has_text = bool(e.choose('stext', 2))
            lics.append((nm, has_text, 'S%d' % i))
        before = bool(e.choose('before', 2)) if nlic else False
        text = [ord(c) for c in HEAD]
        def lic_para(nm, has_text, body):
            return [ord(c) for c in '\nLicense:'] + lic_value('named' if has_text else 'name', nm, body) + [10]
        if before:
            for l in lics: text += lic_para(*l)
        text += [ord(c) for c in '\nFiles: *\nCopyright: c\nLicense:'] + lic_value(form, name) + [ord(c) for c in '\nComment: f0\n']
        if not before:
            for l in lics: text += lic_para(*l)
        path = [ord('x')]
        e.inputs.update(s=Str(text), path=Str(path), fam='license', form=form, name=Str(name), standalone=[[Str(nm), ht, body] for nm, ht, body in lics])
        r1, r2 = self.parse_both(e, text)
        checks = [('both readers accept the generated file', r1.variant == 'Ok' and r2.variant == 'Ok')]
        pred = {'lossless_ok': r1.variant == 'Ok', 'lossy_ok': r2.variant == 'Ok'}
        pth = e.call_path('copyright', 'Path::new', [Str(path)])
        for label, r, ty in (('lossless', r1, 'lossless::Copyright'), ('lossy', r2, 'lossy::Copyright')):
            if r.variant != 'Ok': continue
            got = e.call_path('copyright', ty + '::find_license_for_file', [Ref([r.slots[0]], [0]), pth])
            g = lic_tuple(e, got)
            pred[label + '_license'] = g[0] if g else None
            if form in ('named', 'text'):
                want_name = Str(name) if form == 'named' else None
                checks.append(('%s: a licence with text is returned as is' % label,
                               g is not None and g[0] == ('Named' if form == 'named' else 'Text') and (want_name is None or veq(e, g[1], want_name)) and veq(e, g[2], mkstr('T'))))
                continue
            # name only: the first stand-alone paragraph with the same name, else nothing
            conds = [s_eq(nm[0], name[0]) for nm, _, _ in lics]
            if g is None:
                checks.append(('%s: no licence only when no stand-alone paragraph has the name' % label, b_not(b_or(*conds)) if conds else True))
            else:
                cands = [i for i, (nm, ht, body) in enumerate(lics)
                         if (g[2] is None and not ht) or (g[2] is not None and ht and g[2].is_concrete() and g[2].py() == body)]
                checks.append(('%s: the licence returned is the first stand-alone paragraph with the name' % label,
                               b_and(veq(e, g[1], Str(name)) if g[1] is not None else False,
                                     b_or(*[b_and(conds[i], b_not(b_or(*conds[:i])) if conds[:i] else True) for i in cands]) if cands else False)))
        return {'pred': pred, 'checks': checks}

    def run_gate(self, e, case):
        starts = ['Format: x\n', 'Format:x\n', '# c\nFormat: x\n', '\nFormat: x\n', 'Files: *\nFormat: x\n', 'format: x\n', ' Format: x\n', 'Formats: x\n', '']
        k = e.choose('start', len(starts))
        tail = '\nFiles: *\nCopyright: c\nLicense: L\n' if e.choose('tail', 2) else ''
        text = [ord(c) for c in starts[k] + tail]
        e.inputs.update(s=Str(text), path=Str([120]), fam='gate', start=starts[k])
        r1, r2 = self.parse_both(e, text)
        should = starts[k].startswith('Format:')
        pred = {'lossless_ok': r1.variant == 'Ok', 'lossy_ok': r2.variant == 'Ok'}
        checks = [('lossless: accepted iff the text starts with the Format field', (r1.variant == 'Ok') == should),
                  ('lossy: accepted iff the text starts with the Format field', (r2.variant == 'Ok') == should)]
        if not should and r1.variant == 'Err':
            err = e.deref(r1.slots[0])
            checks.append(('lossless: refused as not machine-readable', isinstance(err, EnumV) and err.variant == 'NotMachineReadable'))
        return {'pred': pred, 'checks': checks}

    # -- native side ----------------------------------------------------------------------------------------------
    def request(self, case, w): return {'op': 'copyright_lookup', 's': w['s'], 'path': w['path']}

    def oracle(self, case, w, nat):
        if nat.get('timeout'): return [('hang', 'lookup does not terminate: %r' % w)]
        if 'crash' in nat: return [('crash', nat['crash'])]
        if 'error' in nat: return [('harness-error', nat['error'])]
        v = []; fam = w['fam']; path = w['path']
        for label in ('lossless', 'lossy'):
            r = nat[label]
            if 'panic' in r: v.append(('panic:%s:%s:%s' % (classify_panic(r['panic']), fam, label), '%s reader/lookup panics on %r path %r: %s' % (label, w['s'], path, r['panic'][:120])))
        if v: return v
        ll, ly = nat['lossless'], nat['lossy']
        if fam == 'gate':
            should = w['start'].startswith('Format:')
            for label, r in (('lossless', ll), ('lossy', ly)):
                if r['ok'] != should: v.append(('gate:%s:%s' % ('refused' if should else 'accepted', label), '%s reader %s %r' % (label, 'refuses' if should else 'accepts', w['s'])))
            if not should and not ll['ok'] and not ll.get('not_machine_readable'): v.append(('gate:error-kind:lossless', 'refusal of %r is %s, not NotMachineReadable' % (w['s'], ll['err'])))
            return v
        for label, r in (('lossless', ll), ('lossy', ly)):
            if not r['ok']: v.append(('rejected:%s:%s' % (fam, label), '%s reader rejects %r: %s' % (label, w['s'], r['err'])))
        if v: return v
        if fam in ('glob', 'lookup', 'lookup3'):
            pats = w['patterns']
            exp = [any(ref_match_text(p, path) for p in ps) for ps in pats]
            shape = 'multi-pattern' if any(len(ps) > 1 for ps in pats) else 'single-pattern'
            want = max([i for i, m in enumerate(exp) if m], default=None)
            for label, r in (('lossless', ll), ('lossy', ly)):
                per = [f['matches'] for f in r['files']]
                if per != exp:
                    i = next(i for i in range(len(exp)) if i >= len(per) or per[i] != exp[i])
                    kinds = pattern_kinds(pats[i], path)
                    v.append(('matches:%s:%s:%s' % (label, 'multi-pattern' if len(pats[i]) > 1 else 'single-pattern', kinds), '%s: patterns %r vs path %r: matches() = %r, DEP-5 says %r' % (label, pats[i], path, per[i] if i < len(per) else None, exp[i])))
                    continue
                got = r['found']['comment'] if r['found'] else None
                wantc = ('f%d' % want) if want is not None else None
                if got != wantc: v.append(('last-match:%s:%s' % (label, shape), '%s: find_files(%r) returns %r, the last matching Files paragraph is %r (patterns %r)' % (label, path, got, wantc, pats)))
            if not v and (ll['found'] != ly['found']): v.append(('readers-differ:found', 'lossless %r vs lossy %r' % (ll['found'], ly['found'])))
            return v
        # license
        form = w['form']; name = w['name']; sa = w['standalone']
        if form == 'named': want = {'kind': 'Named', 'name': name, 'text': 'T'}
        elif form == 'text': want = {'kind': 'Text', 'name': None, 'text': 'T'}
        else:
            want = None
            for nm, ht, body in sa:
                if nm == name: want = {'kind': 'Named', 'name': nm, 'text': body} if ht else {'kind': 'Name', 'name': nm, 'text': None}; break
        for label, r in (('lossless', ll), ('lossy', ly)):
            if r['license'] != want:
                sh = 'own-' + form if form != 'name' else ('standalone-' + ('none' if want is None else ('with-text' if want['text'] else 'name-only')))
                v.append(('license:%s:%s' % (label, sh), '%s: find_license_for_file on %r returns %r, expected %r' % (label, w['s'], r['license'], want)))
        return v

    def compare(self, case, pred, nat):
        d = []
        for b in ('lossless', 'lossy'):
            r = nat.get(b, {})
            if 'panic' in r: continue
            if (b + '_ok') in pred and pred[b + '_ok'] != r.get('ok'): d.append('%s ok %r vs %r' % (b, pred[b + '_ok'], r.get('ok')))
            if (b + '_found') in pred and r.get('ok'):
                got = r['found']['comment'] if r['found'] else None
                want = ('f%d' % pred[b + '_found']) if pred[b + '_found'] is not None else None
                if got != want: d.append('%s found %r vs %r' % (b, want, got))
            if (b + '_license') in pred and r.get('ok'):
                got = r['license']['kind'] if r['license'] else None
                if got != pred[b + '_license']: d.append('%s license kind %r vs %r' % (b, pred[b + '_license'], got))
        if 'match' in pred and nat.get('lossless', {}).get('ok') and nat['lossless']['files']:
            if nat['lossless']['files'][0]['matches'] != pred['match']: d.append('match %r vs %r' % (pred['match'], nat['lossless']['files'][0]['matches']))
        return d

    def nontrivial(self, case, w): return True
    def coverage_keys(self, case, w, nat): return ['family=' + w['fam']]


def s_eq_bool(got, want):
    """got: python bool (decided on the path); want: bool / z3 Bool"""
    if isinstance(want, bool): return got == want
    return want if got else z3.Not(want)


def b_not(x):
    if isinstance(x, bool): return not x
    return z3.Not(x)


def lic_tuple(e, opt):
    """Option<License> / Option<&License> -> (kind, name Str|None, text Str|None) or None"""
    if opt.variant != 'Some': return None
    l = e.deref(opt.slots[0])
    if l.variant == 'Name': return ('Name', e.deref(l.slots[0]), None)
    if l.variant == 'Text': return ('Text', None, e.deref(l.slots[0]))
    return ('Named', e.deref(l.slots[0]), e.deref(l.slots[1]))


def pattern_kinds(ps, path):
    ks = set()
    for p in ps:
        if '*' in p.replace('\\*', ''): ks.add('star')
        if '?' in p.replace('\\?', ''): ks.add('qmark')
        if '\\' in p: ks.add('escape')
        if re.search(r'[.+()|\[\]{}^$#&~-]', p): ks.add('regex-meta')
        if any(ord(c) > 0x7f for c in p): ks.add('non-ascii')
    if '\n' in path: ks.add('newline-in-path')
    if '/' in path: ks.add('slash-in-path')
    return ','.join(sorted(ks)) or 'literal'


HARNESS = C17()
