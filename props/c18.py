"""C18: typed field values round-trip through their text form."""
import re, os
import z3
from mirsym.runner import Harness
from mirsym.values import *
from mirsym.models_core import veq
from mirsym.models_str import is_ws
from mirsym.models_iter import MapV
from .common import *
from .c01 import classify_panic

REPO = '/repo'


def src_fields(path, kind, name, variant=None):
    """declaration order of the fields of a struct / the variants of an enum, read from the current source"""
    t = re.sub(r'//[^\n]*', '', open(os.path.join(REPO, path)).read())
    m = re.search(r'\b%s %s\s*\{' % (kind, name), t)
    i = m.end(); depth = 1; j = i
    while depth:
        if t[j] == '{': depth += 1
        elif t[j] == '}': depth -= 1
        j += 1
    body = re.sub(r'#\[[^\]]*\]', '', t[i:j-1])
    if kind == 'struct':
        return re.findall(r'(?:pub(?:\([^)]*\))?\s+)?(\w+)\s*:(?!:)', re.sub(r'<[^<>]*>', '', re.sub(r'<[^<>]*>', '', body)))
    if variant is None:
        out = []; depth = 0; cur = ''
        for ch in body:
            if ch in '({': depth += 1
            elif ch in ')}': depth -= 1
            if ch == ',' and depth == 0: out.append(cur); cur = ''
            else: cur += ch
        out.append(cur)
        return [re.match(r'\s*(\w+)', x).group(1) for x in out if re.match(r'\s*(\w+)', x)]
    m = re.search(r'\b%s\s*\{([^}]*)\}' % variant, body)
    return re.findall(r'(\w+)\s*:', m.group(1)) if m else []


def tok(e, name, maxlen, cond=None, minlen=1):
    n = e.choose(name + 'len', maxlen - minlen + 1) + minlen
    out = []
    for i in range(n):
        c = e.fresh_char(name); e.assume(z3.Not(is_ws(e, c)))
        if cond is not None: e.assume(cond(c))
        out.append(c)
    return Str(out)


def differs(e, st, lit):
    """assume st != literal"""
    if len(st.chars) != len(lit): return
    e.assume(z3.Not(z3.And(*[c == ord(x) if is_sym(c) else z3.BoolVal(c == ord(x)) for c, x in zip(st.chars, lit)])))


def no_prefix(e, st, lit):
    if len(st.chars) < len(lit): return
    e.assume(z3.Not(z3.And(*[c == ord(x) if is_sym(c) else z3.BoolVal(c == ord(x)) for c, x in zip(st.chars, lit)])))


# type -> (crate, MIR type path, source file for layout)
TYPES = {
    'Priority': ('control', 'fields::Priority', 'debian-control/src/fields.rs'),
    'MultiArch': ('control', 'fields::MultiArch', 'debian-control/src/fields.rs'),
    'Urgency': ('control', 'fields::Urgency', 'debian-control/src/fields.rs'),
    'VersionConstraint': ('control', 'relations::VersionConstraint', 'debian-control/src/relations.rs'),
    'BuildProfile': ('control', 'relations::BuildProfile', 'debian-control/src/relations.rs'),
    'Md5Checksum': ('control', 'fields::Md5Checksum', 'debian-control/src/fields.rs'),
    'Sha1Checksum': ('control', 'fields::Sha1Checksum', 'debian-control/src/fields.rs'),
    'Sha256Checksum': ('control', 'fields::Sha256Checksum', 'debian-control/src/fields.rs'),
    'Sha512Checksum': ('control', 'fields::Sha512Checksum', 'debian-control/src/fields.rs'),
    'PackageListEntry': ('control', 'fields::PackageListEntry', 'debian-control/src/fields.rs'),
    'File': ('control', 'lossless::changes::File', 'debian-control/src/lossless/changes.rs'),
    'ParsedVcs': ('control', 'vcs::ParsedVcs', 'debian-control/src/vcs.rs'),
    'Vcs': ('control', 'vcs::Vcs', 'debian-control/src/vcs.rs'),
    'Forwarded': ('dep3', 'fields::Forwarded', 'dep3/src/fields.rs'),
    'OriginCategory': ('dep3', 'fields::OriginCategory', 'dep3/src/fields.rs'),
    'Origin': ('dep3', 'fields::Origin', 'dep3/src/fields.rs'),
    'AppliedUpstream': ('dep3', 'fields::AppliedUpstream', 'dep3/src/fields.rs'),
    'License': ('copyright', 'License', 'debian-copyright/src/lib.rs'),
    'RepositoryType': ('aptsources', 'RepositoryType', 'apt-sources/src/lib.rs'),
    'YesNoForce': ('aptsources', 'YesNoForce', 'apt-sources/src/lib.rs'),
    'Signature': ('aptsources', 'signature::Signature', 'apt-sources/src/signature.rs'),
}
PLAIN_ENUMS = ['Priority', 'MultiArch', 'Urgency', 'VersionConstraint', 'OriginCategory', 'RepositoryType', 'YesNoForce']


class C18(Harness):
    id = 'C18'
    op = 'codec'
    crates = ('control', 'dep3', 'copyright', 'aptsources')
    fuel = 60000
    bounds = {'quick': {'token_chars': 2, 'size_max': 99999, 'extra_entries': 1, 'reject_text_chars': 3},
              'thorough': {'token_chars': 3, 'size_max': 9999999, 'extra_entries': 2, 'reject_text_chars': 4}}
    assumptions = ['enumerations: every variant; record components: tokens of 1..n symbolic characters that are not Unicode whitespace; sizes: symbolic integers 0..size_max',
                   'representation ambiguities are avoided, not judged: Forwarded::Yes payload is not "no"/"not-needed"; Origin::Other / AppliedUpstream::Other payloads do not start with "commit:"; BuildProfile::Enabled payload does not start with "!"; PackageListEntry extra keys/values contain no "="; License names contain no LF and Named names are non-empty; key paths contain no LF',
                   'VCS components are whitespace-free tokens (so a url cannot contain " [" or " -b "); a subpath additionally contains no "]" and a branch name no "[" (git refuses it in a ref name, and "-b [x]" would be indistinguishable from a subpath); brackets inside a url are allowed (IPv6 hosts)',
                   'rejection clause: every text of up to n characters and of every keyword length of the type: whenever it parses, printing the result gives the text back (or its lower-case form for the case-insensitive Urgency)']
    oracle_leniency = ['Urgency parses case-insensitively; a parsed text may print as its ASCII-lower-case form']

    def cases(self, tier):
        b = self.bounds[tier]
        cs = [dict(b, fam='value', type=t, order=0) for t in TYPES]
        cs.append(dict(b, fam='value', type='ParsedVcs', wide=True, order=0))   # urls of up to 3 characters: room for a bracketed host
        for t in PLAIN_ENUMS:
            kws = src_keywords(t)
            for n in sorted(set(list(range(0, b['reject_text_chars'] + 1)) + [len(k) for k in kws])):
                cs.append({'fam': 'reject', 'type': t, 'n': n, 'order': 1})
        return cs

    # ---- symbolic value of each type --------------------------------------------------------------
    def make(self, e, T, case):
        crate, path, src = TYPES[T]
        n = case['token_chars']
        ek = lambda name=T: e.prog.enum_lookup(path if name == T else name, crate)
        def enum_choice(name=T, p=path):
            key = e.prog.enum_lookup(p, crate)
            vs = [v for v, _ in e.prog.enums[key]]
            return key, vs[e.choose('variant', len(vs))]
        prio = lambda: (lambda k_v: (EnumV(k_v[0], k_v[1]), k_v[1]))(enum_choice('Priority', 'fields::Priority'))
        if T in PLAIN_ENUMS:
            key, v = enum_choice(); return EnumV(key, v), {'variant': v}
        if T == 'BuildProfile':
            key, v = enum_choice(); s = tok(e, 's', n)
            if v == 'Enabled': e.assume(s.chars[0] != 33)
            return EnumV(key, v, [s]), {'variant': v, 's': s}
        if T in ('Md5Checksum', 'Sha1Checksum', 'Sha256Checksum', 'Sha512Checksum'):
            h = tok(e, 'h', n); f = tok(e, 'f', n); size = e.fresh_int('size'); e.assume(z3.And(size >= 0, size <= case['size_max']))
            order = src_fields(src, 'struct', T)
            vals = {order[0]: h, 'size': size, 'filename': f}
            return Agg(T, [vals[k] for k in order]), {'hash': h, 'size': size, 'filename': f}
        if T == 'PackageListEntry':
            p = tok(e, 'p', n); ty = tok(e, 't', n); sec = tok(e, 's', n); pv, pn = prio()
            m = MapV(); extra = []
            for i in range(e.choose('nextra', case['extra_entries'] + 1)):
                k = tok(e, 'k', 1, cond=lambda c: c != 61); v = tok(e, 'v', 1, cond=lambda c: c != 61)
                if any(e.branch(veq(e, k, k2)) for k2, _ in extra): continue
                m.items.append([k, v]); extra.append((k, v))
            order = src_fields(src, 'struct', T)
            vals = {'package': p, 'package_type': ty, 'section': sec, 'priority': pv, 'extra': m}
            return Agg(T, [vals[k] for k in order]), {'package': p, 'package_type': ty, 'section': sec, 'priority': pn, 'extra': [[k, v] for k, v in extra]}
        if T == 'File':
            md = tok(e, 'm', n); sec = tok(e, 's', n); fn = tok(e, 'f', n); pv, pn = prio()
            size = e.fresh_int('size'); e.assume(z3.And(size >= 0, size <= case['size_max']))
            order = src_fields(src, 'struct', 'File')
            vals = {'md5sum': md, 'size': size, 'section': sec, 'priority': pv, 'filename': fn}
            return Agg('File', [vals[k] for k in order]), {'md5sum': md, 'size': size, 'section': sec, 'priority': pn, 'filename': fn}
        nosp = lambda c: z3.And(c != 32, c != 91, c != 93)
        def optional(name, cond=None):
            if e.choose(name + 'some', 2) == 0: return NONE(), None
            s = tok(e, name, n, cond=cond); return SOME(s), s
        if T == 'ParsedVcs':
            url = tok(e, 'u', max(n, 3) if case.get('wide') else n); b, bj = optional('b', lambda c: c != 91); sp, spj = optional('sp', lambda c: c != 93)
            order = src_fields(src, 'struct', 'ParsedVcs'); vals = {'repo_url': url, 'branch': b, 'subpath': sp}
            return Agg('ParsedVcs', [vals[k] for k in order]), {'repo_url': url, 'branch': bj, 'subpath': spj}
        if T == 'Vcs':
            key, v = enum_choice(); url = tok(e, 'u', n)
            fields = src_fields(src, 'enum', 'Vcs', v); vals = {}; j = {'variant': v, 'repo_url': url}
            for f in fields:
                if f in ('repo_url', 'url', 'root'): vals[f] = url
                else:
                    o, oj = optional(f, (lambda c: c != 93) if f == 'subpath' else ((lambda c: c != 91) if f == 'branch' else None)); vals[f] = o; j[f] = oj
            return EnumV(key, v, [vals[f] for f in fields]), j
        if T == 'Forwarded':
            key, v = enum_choice()
            if v != 'Yes': return EnumV(key, v), {'variant': v}
            s = tok(e, 's', max(n, 2)); differs(e, s, 'no'); differs(e, s, 'not-needed')
            return EnumV(key, v, [s]), {'variant': v, 's': s}
        if T in ('Origin', 'AppliedUpstream'):
            key, v = enum_choice(); s = tok(e, 's', n, minlen=0)
            if v == 'Other': no_prefix(e, s, 'commit:')
            return EnumV(key, v, [s]), {'variant': v, 's': s}
        if T == 'License':
            key, v = enum_choice()
            nonl = lambda c: c != 10
            def free(name, mx, cond=None, minlen=0):
                k = e.choose(name + 'len', mx - minlen + 1) + minlen; out = []
                for _ in range(k):
                    c = e.fresh_char(name)
                    if cond is not None: e.assume(cond(c))
                    out.append(c)
                return Str(out)
            if v == 'Name': s = free('n', n, nonl); return EnumV(key, v, [s]), {'variant': v, 'name': s}
            if v == 'Text': s = free('t', n); return EnumV(key, v, [s]), {'variant': v, 'text': s}
            nm = free('n', n, nonl, 1); tx = free('t', n); return EnumV(key, v, [nm, tx]), {'variant': v, 'name': nm, 'text': tx}
        if T == 'Signature':
            key, v = enum_choice()
            if v == 'KeyBlock':
                s = sym_text(e, e.choose('len', n + 1)); return EnumV(key, v, [s]), {'variant': v, 's': s}
            s = sym_text(e, e.choose('len', n + 1))
            for c in s.chars: e.assume(c != 10)
            return EnumV(key, v, [Opaque('Path', s)]), {'variant': v, 's': s}
        raise Unsupported('C18 type ' + T)

    def run(self, e, case):
        T = case['type']; crate, path, src = TYPES[T]
        if case['fam'] == 'reject':
            s = sym_text(e, case['n']); e.inputs.update(s=s, type=T, fam='reject')
            r = e.call_path(crate, '<%s as FromStr>::from_str' % path, [s])
            if r.variant != 'Ok': return {'pred': {'ok': False}, 'checks': [('rejected', True)]}
            t = self.to_text(e, T, crate, path, r.slots[0])
            from mirsym.models_str import ascii_lower
            cond = veq(e, t, s)
            if T == 'Urgency': cond = b_or(cond, veq(e, t, Str([ascii_lower(c) for c in s.chars])))
            return {'pred': {'ok': True, 'text': t}, 'checks': [('an accepted text is a keyword of the type (prints back)', cond)]}
        v, desc = self.make(e, T, case)
        e.inputs.update(type=T, v=desc, fam='value')
        if T == 'Vcs':
            tf = e.call_path(crate, 'vcs::Vcs::to_field', [Ref([v], [0])]); name, t = tf.slots
            r = e.call_path(crate, 'vcs::Vcs::from_field', [name, t])
        else:
            t = self.to_text(e, T, crate, path, v)
            r = e.call_path(crate, '<%s as FromStr>::from_str' % path, [t])
        pred = {'text': t, 'ok': r.variant == 'Ok'}
        if r.variant != 'Ok': return {'pred': pred, 'checks': [('the text form of a value parses', False)]}
        return {'pred': pred, 'checks': [('parse(print(v)) == v', veq(e, r.slots[0], v))]}

    def to_text(self, e, T, crate, path, v):
        if T == 'YesNoForce': return e.call_path(crate, '<&YesNoForce as ToString>::to_string', [Ref([Ref([v], [0])], [0])])
        return e.call_path(crate, '<%s as ToString>::to_string' % path, [Ref([v], [0])])

    def request(self, case, w):
        if w['fam'] == 'reject': return {'op': 'codec_parse', 'type': w['type'], 's': w['s']}
        return {'op': 'codec', 'type': w['type'], 'v': w['v']}

    def oracle(self, case, w, nat):
        T = w['type']
        if nat.get('timeout'): return [('hang:' + T, 'codec %s does not terminate on %r' % (T, w))]
        if 'crash' in nat: return [('crash:' + T, nat['crash'])]
        if 'panic' in nat: return [('panic:%s:%s' % (T, classify_panic(nat['panic'])), '%s codec panics on %r: %s' % (T, w, nat['panic'][:150]))]
        if 'error' in nat: return [('harness-error', nat['error'])]
        if w['fam'] == 'reject':
            if nat['ok'] and nat['text'] != w['s'] and not (T == 'Urgency' and nat['text'] == w['s'].lower()):
                return [('unknown-keyword-accepted:' + T, '%s::from_str(%r) is accepted as %r' % (T, w['s'], nat['text']))]
            return []
        if not nat['ok']: return [('roundtrip-rejected:' + T + variant_of(w), '%s value %r prints %r which does not parse: %s' % (T, w['v'], nat['text'], nat.get('err')))]
        if not nat['eq']: return [('roundtrip-differs:' + T + variant_of(w), '%s value %r prints %r which parses to a different value (printing %r)' % (T, w['v'], nat['text'], nat.get('text2')))]
        return []

    def compare(self, case, pred, nat):
        if 'panic' in nat: return ['native panics']
        if pred.get('ok') != nat.get('ok'): return ['ok %r vs %r' % (pred.get('ok'), nat.get('ok'))]
        if 'text' in pred and pred.get('ok') and pred['text'] != nat.get('text') and case['type'] != 'PackageListEntry': return ['text %r vs %r' % (pred['text'], nat.get('text'))]
        return []

    def coverage_keys(self, case, w, nat): return ['type=' + w['type'], 'family=' + w['fam']] + (['variant=%s::%s' % (w['type'], w['v'].get('variant'))] if w['fam'] == 'value' and isinstance(w['v'], dict) and w['v'].get('variant') else [])


def variant_of(w):
    v = w['v'].get('variant') if isinstance(w.get('v'), dict) else None
    return ':' + v if v else ''


def src_keywords(T):
    crate, path, src = TYPES[T]
    t = open(os.path.join(REPO, src)).read()
    m = re.search(r'impl (?:std::str::)?FromStr for %s\b' % T, t)
    seg = t[m.end():m.end() + 1200] if m else ''
    return re.findall(r'"([a-z<>=-]+)"\s*=>', seg)


def install(e): pass
HARNESS = C18()
