"""C04: field edits act like list edits, touch nothing else, and survive a re-read."""
import z3
from mirsym.runner import Harness
from mirsym.values import *
from mirsym.models_core import veq
from mirsym.models_iter import getiter, drain
from .common import *
from .deb822_common import *
from .c01 import classify_panic


def gen_segments(e, L):
    """well-formed document as segments; content characters are lower-case letters (shape S2), one layout per line kind.
    returns (segments, nparas); segment = dict(kind, text(list of chars), para, name, lines)"""
    g = Gen(e, letters_only=True)
    segs = []; para = -1; open_para = False; prev = 'blank'
    nl = g.choose('L', L) + 1
    for i in range(nl):
        opts = ['field', 'comment', 'blank'] + (['cont'] if prev in ('field', 'cont') else [])
        kind = opts[g.choose('kind', len(opts))]
        last = (i == nl - 1)
        nlc = [10] if (not last or g.choose('fnl', 2)) else []
        if kind == 'field':
            if not open_para: para += 1; open_para = True
            k = [g.ch('k', keyinit)]; v = [g.ch('v', valstart)]
            segs.append({'kind': 'field', 'text': k + [58, 32] + v + nlc, 'para': para, 'name': k, 'lines': [v]})
        elif kind == 'cont':
            v = [g.ch('v', contstart)]
            segs[-1]['text'] += [32] + v + nlc; segs[-1]['lines'].append(v)
        elif kind == 'comment':
            segs.append({'kind': 'comment', 'text': [35] + [g.ch('c', valch)] + nlc, 'para': para if open_para else None})
        else:
            segs.append({'kind': 'blank', 'text': nlc, 'para': None}); open_para = False
        prev = kind if kind != 'cont' else 'cont'
        if kind == 'cont': prev = 'cont'
    return segs, para + 1


def paragraphs_of(e, d): return read_paragraphs(e, d)


class C04(Harness):
    id = 'C04'
    op = 'deb822_edit'
    fuel = 200000
    bounds = {'quick': {'cases': [{'lines': 3, 'history': 1}, {'lines': 2, 'history': 2}, {'pairs': 2, 'history': 2}]},
              'thorough': {'cases': [{'lines': 4, 'history': 1}, {'lines': 3, 'history': 2}, {'lines': 2, 'history': 3}, {'pairs': 3, 'history': 3}]}}
    assumptions = ['start states: well-formed documents generated as in C03 shape S2 (one layout per line kind, letters as content, comments and blank lines anywhere, final newline optional) with at least one paragraph, or paragraphs built with From<Vec<(String,String)>>',
                   'operations: set / insert / remove / rename on a symbolically chosen paragraph; keys are the names of existing fields (symbolic, so duplicates arise from the solver) or a fresh symbolic name; values are 1 or 2 lines of one letter',
                   'text locality: the printed document after an edit must be the previous text with one contiguous region replaced (set/rename of an existing field: exactly that field\'s lines; append: an insertion after the last field of the paragraph and before the next paragraph separator; remove: the removed fields\' lines deleted)']
    oracle_leniency = ['the rendering of the touched field is not fixed (any text that re-reads to the new name/value)', 'an appended field may be placed after trailing comments of its paragraph',
                       'when the last line of the document lacks a newline, an append may add one']

    def cases(self, tier):
        return [dict(c, order=c.get('lines', 0) + c['history']) for c in self.bounds[tier]['cases']]

    def run(self, e, case):
        checks = []
        e.inputs['ops'] = []; e.inputs['s'] = None; e.inputs['pairs'] = None
        if 'pairs' in case:
            nf = e.choose('nf', case['pairs']) + 1
            pairs = [(Str([e.fresh_ascii('k', keyinit)]), Str([e.fresh_ascii('v', lower)])) for _ in range(nf)]
            e.inputs['pairs'] = [[[k, v] for k, v in pairs]]; e.inputs['s'] = None
            vec = VecV([Agg('tuple', [k, v]) for k, v in pairs])
            para = e.call_path('deb822', '<lossless::Paragraph as From<Vec<(String, String)>>>::from', [vec])
            from mirsym.models_iter import ListIter
            d = e.call_path('deb822', '<lossless::Deb822 as FromIterator<lossless::Paragraph>>::from_iter::<ListIter>', [ListIter([para])])
            segs = [{'kind': 'field', 'text': list(k.chars) + [58, 32] + list(v.chars) + [10], 'para': 0, 'name': list(k.chars), 'lines': [list(v.chars)]} for k, v in pairs]
            npar = 1
        else:
            segs, npar = gen_segments(e, case['lines'])
            if npar == 0: raise Infeasible()
            text = []
            for sg in segs: text += sg['text']
            s = Str(text); e.inputs['s'] = s; e.inputs['pairs'] = None
            r = e.call_path('deb822', '<lossless::Deb822 as FromStr>::from_str', [s])
            if r.variant != 'Ok': return {'pred': {}, 'checks': [('well-formed start document accepted', False)]}
            d = r.slots[0]
        model = [[] for _ in range(npar)]
        for sg in segs:
            if sg['kind'] == 'field': model[sg['para']].append([Str(sg['name']), Str(model_value(sg['lines']))])
        early = paragraphs_of(e, d)
        e.inputs['ops'] = []
        T0 = call_to_string(e, 'deb822', 'lossless::Deb822', d)
        states = []
        S = [dict(sg, text=list(sg['text'])) for sg in segs]          # segment model of the printed text
        def cat(xs): return [c for sg in xs for c in sg['text']]
        checks.append(('start text == concatenation of the generated segments', veq(e, T0, Str(cat(S)))))
        def starts_ends(T, pre, suf):
            t = list(T.chars)
            if len(t) < len(pre) + len(suf): return False
            return b_and(veq(e, Str(t[:len(pre)]), Str(pre)), veq(e, Str(t[len(t) - len(suf):]), Str(suf)))
        def holds(c): return c is True or (c is not False and not e.check(z3.Not(c)))
        def fields_of(pi): return [i for i, sg in enumerate(S) if sg['kind'] == 'field' and sg['para'] == pi]
        def locality_replace(T, idx, h):
            pre, suf = cat(S[:idx]), cat(S[idx+1:])
            c = starts_ends(T, pre, suf); checks.append(('step %d: bytes outside the touched field unchanged' % h, c))
            if c is not False:
                t = list(T.chars); S[idx]['text'] = t[len(pre):len(t) - len(suf)]
        def locality_append(T, pi, h, name):
            fi = fields_of(pi)
            if fi:
                lo = fi[-1] + 1; hi = lo
                while hi < len(S) and S[hi]['kind'] == 'comment' and S[hi]['para'] == pi: hi += 1
                cands = list(range(lo, hi + 1))
            else: cands = list(range(len(S) + 1))
            conds = []
            for cpos in cands:
                c = starts_ends(T, cat(S[:cpos]), cat(S[cpos:])); conds.append(c)
                if holds(c):
                    t = list(T.chars); pre, suf = cat(S[:cpos]), cat(S[cpos:])
                    X = t[len(pre):len(t) - len(suf)]
                    if X and X[0] == 10 and cpos > 0 and S[cpos-1]['text'][-1:] != [10]:
                        S[cpos-1]['text'].append(10); X = X[1:]      # a newline added to terminate the previous last line belongs to that line
                    S.insert(cpos, {'kind': 'field', 'para': pi, 'text': X, 'name': name})
                    checks.append(('step %d: append is one contiguous insertion inside the paragraph' % h, True)); return
            checks.append(('step %d: append is one contiguous insertion inside the paragraph' % h, b_or(*conds)))
        H = e.choose('H', case['history']) + 1
        for h in range(H):
            pi = e.choose('para', npar)
            names = [m[0] for m in model[pi]]
            ki = e.choose('key', len(names) + 1)
            key = names[ki] if ki < len(names) else Str([e.fresh_ascii('n', keyinit)])
            op = ['set', 'insert', 'remove', 'rename'][e.choose('op', 4)]
            vk = e.choose('vl', 3 if h == 0 else 2)       # one line / two lines / (first step only) the empty value
            vlines = [[]] if vk == 2 else ([[e.fresh_ascii('w', lower)]] + ([[e.fresh_ascii('w', lower)]] if vk == 1 else []))
            val = Str(model_value(vlines))
            newkey = Str([e.fresh_ascii('m', keyinit)])
            e.inputs['ops'].append({'op': op, 'para': pi, 'key': key, 'value': val, 'newkey': newkey})
            ps = paragraphs_of(e, d)
            if len(ps) != npar: return {'pred': {}, 'checks': [('paragraph count stable', False)]}
            pref = Ref([ps[pi]], [0])
            mp = model[pi]
            if op == 'set':
                e.call_path('deb822', 'lossless::Paragraph::set', [pref, key, val])
                hit = next((j for j, m in enumerate(mp) if e.branch(veq(e, m[0], key))), None)
                if hit is None: mp.append([key, val]); loc = ('append',)
                else: mp[hit][1] = val; loc = ('replace', fields_of(pi)[hit])
            elif op == 'insert':
                e.call_path('deb822', 'lossless::Paragraph::insert', [pref, key, val]); mp.append([key, val]); loc = ('append',)
            elif op == 'remove':
                e.call_path('deb822', 'lossless::Paragraph::remove', [pref, key])
                gone = [j for j, m in enumerate(mp) if e.branch(veq(e, m[0], key))]
                loc = ('remove', [fields_of(pi)[j] for j in gone])
                mp[:] = [m for j, m in enumerate(mp) if j not in gone]
            else:
                r = e.call_path('deb822', 'lossless::Paragraph::rename', [pref, key, newkey])
                hit = next((j for j, m in enumerate(mp) if e.branch(veq(e, m[0], key))), None)
                checks.append(('step %d: rename reports whether the field existed' % h, r == (hit is not None)))
                if hit is not None: mp[hit][0] = newkey; loc = ('replace', fields_of(pi)[hit])
                else: loc = ('none',)
            # (i) live content == list model ; (iii) early handles see the edit
            want = [[(m[0].chars, [m[1].chars]) for m in p] for p in model]
            live = read_lossless(e, d)
            nonempty = [p for p in want if p]   # a paragraph emptied by remove still exists in the tree; compare per index
            checks.append(('step %d: items() == list model' % h, content_equal_cond(e, live, want)))
            checks.append(('step %d: handles obtained earlier see the edit' % h, content_equal_cond(e, [read_items(e, p) for p in early], want)))
            T1 = call_to_string(e, 'deb822', 'lossless::Deb822', d)
            # (ii) every byte outside the touched field is unchanged
            if loc[0] == 'replace': locality_replace(T1, loc[1], h)
            elif loc[0] == 'append': locality_append(T1, pi, h, key)
            elif loc[0] == 'remove':
                for idx in sorted(loc[1], reverse=True): del S[idx]
                checks.append(('step %d: remove deletes exactly the removed fields\' lines' % h, veq(e, T1, Str(cat(S)))))
            else: checks.append(('step %d: text unchanged' % h, veq(e, T1, Str(cat(S)))))
            # (iv) printed text re-reads to the same content
            rr = e.call_path('deb822', '<lossless::Deb822 as FromStr>::from_str', [T1])
            if rr.variant != 'Ok': checks.append(('step %d: printed document re-reads without error' % h, False))
            else: checks.append(('step %d: re-read content == live content' % h, content_equal_cond(e, read_lossless(e, rr.slots[0]), [p for p in want if p] if any(not p for p in want) else want)))
            states.append(T1)
        return {'pred': {'texts': states, 'model': [[[m[0], m[1]] for m in p] for p in model]}, 'checks': checks}

    def request(self, case, w):
        r = {'op': 'deb822_edit', 'ops': w['ops']}
        if w.get('pairs') is not None: r['pairs'] = w['pairs']
        else: r['s'] = w['s']
        return r

    def oracle(self, case, w, nat):
        if nat.get('timeout'): return [('hang', 'edit history does not terminate: %r' % w)]
        if 'crash' in nat: return [('crash', nat['crash'])]
        if 'panic' in nat: return [('panic:' + classify_panic(nat['panic']), 'panic: %s on %r' % (nat['panic'][:150], w))]
        if 'parse_error' in nat: return [('start-rejected', 'well-formed start document %r rejected: %s' % (w['s'], nat['parse_error']))]
        return judge_history(w, nat['states'])

    def compare(self, case, pred, nat):
        if 'states' not in nat: return []
        sts = nat['states'][1:]
        if any('panic' in s for s in sts): return ['native panics']
        for i, (t, s) in enumerate(zip(pred.get('texts', []), sts)):
            if t != s['text']: return ['text after step %d: %r vs %r' % (i, t, s['text'])]
        return []

    def coverage_keys(self, case, w, nat):
        return ['start=' + ('pairs' if w.get('pairs') is not None else 'parsed')] + ['op=' + o['op'] for o in w['ops']]


# ---- the property's oracle on concrete native observations (shared with C05) ---------------------------------
def field_spans(text):
    """[(start, end, name)] of the fields of a well-formed document text (field line + its continuation lines), and paragraph regions"""
    spans = []; pos = 0; para = -1; open_para = False; regions = []
    for line in text.splitlines(keepends=True):
        body = line.rstrip('\n')
        if body == '':
            if open_para: regions[-1][1] = pos
            open_para = False
        elif body.startswith('#'):
            pass
        elif body[0] in ' \t':
            if spans: spans[-1][1] = pos + len(line)
        else:
            if not open_para: para += 1; open_para = True; regions.append([pos, None])
            spans.append([pos, pos + len(line), body.split(':', 1)[0], para])
        pos += len(line)
        if open_para: regions[-1][1] = pos
    return spans, regions


def judge_history(w, states):
    v = []
    st0 = states[0]
    model = [[list(kv) for kv in p] for p in st0['paras']]
    prev = st0['text']
    for i, op in enumerate(w['ops']):
        if i + 1 >= len(states): break
        st = states[i + 1]
        if 'panic' in st: return v + [('panic:%s:%s' % (op['op'], classify_panic(st['panic'])), '%s panics: %s (history %r on %r)' % (op['op'], st['panic'][:150], w['ops'][:i+1], prev))]
        pi = op['para']; mp = model[pi]; k = op['key']
        spans, regions = field_spans(prev)
        # a paragraph emptied by remove() still exists in the tree but not in the text: text paragraphs are the non-empty model paragraphs
        tpi = sum(1 for q in model[:pi] if q)
        mine = [s for s in spans if s[3] == tpi] if mp else []
        T1 = st['text']
        def replaced(a, b):      # T1 == prev[:a] + X + prev[b:]
            return len(T1) >= a + (len(prev) - b) and T1.startswith(prev[:a]) and (b == len(prev) or T1.endswith(prev[b:]))
        local = True
        if op['op'] in ('set', 'rename'):
            hit = next((j for j, m in enumerate(mp) if m[0] == k), None)
            if op['op'] == 'rename':
                if st.get('renamed') != (hit is not None): v.append(('rename-result', 'rename(%r) returned %r' % (k, st.get('renamed'))))
                if hit is not None: mp[hit][0] = op['newkey']
            elif hit is not None: mp[hit][1] = op['value']
            if hit is not None and len(mine) == len(mp): local = replaced(mine[hit][0], mine[hit][1])
            elif hit is None and op['op'] == 'rename': local = (T1 == prev)
            elif hit is None:
                mp.append([k, op['value']]); local = appended(prev, T1, mine, regions, tpi)
        elif op['op'] == 'insert':
            mp.append([k, op['value']]); local = appended(prev, T1, mine, regions, tpi)
        else:
            keep = [m for m in mp if m[0] != k]
            if len(mine) == len(mp):
                exp = ''; pos = 0
                for s_, m in zip(mine, mp):
                    if m[0] == k: exp += prev[pos:s_[0]]; pos = s_[1]
                exp += prev[pos:]
                local = (T1 == exp)
            mp[:] = keep
        cls = op['op'] + (':' + edit_class(w, i, prev))
        if st['paras'] != [[list(kv) for kv in p] for p in model] and [p for p in st['paras']] != [p for p in model]:
            v.append(('list-semantics:' + cls, 'after %r on %r the document reads %r, list model %r' % (w['ops'][:i+1], st0['text'], st['paras'], model)))
        elif not local:
            v.append(('locality:' + cls, '%r changed bytes outside the touched field: %r -> %r' % (op, prev, T1)))
        if st['early'] != st['paras'][:len(st['early'])] and st['early'] != st['paras']: v.append(('stale-handle:' + cls, 'handles obtained before the edit report %r, the document %r' % (st['early'], st['paras'])))
        rp = st['reparse']
        if 'panic' in rp or not rp.get('ok'): v.append(('reparse-fails:' + cls, 'printed document %r does not re-read: %r' % (T1, rp)))
        elif [p for p in rp['paras'] if p] != [p for p in st['paras'] if p]: v.append(('reparse-differs:' + cls, 'printed document %r re-reads as %r, live object reports %r' % (T1, rp['paras'], st['paras'])))
        if v: return v
        prev = T1
    return v


def appended(prev, T1, mine, regions, pi):
    """T1 is prev with one contiguous insertion located after the last field of paragraph pi and inside its region"""
    if len(T1) < len(prev): return False
    if not mine: lo, hi = 0, len(prev)      # the paragraph has no field left: its position in the text is not observable
    else:
        lo = mine[-1][1]
        hi = regions[pi][1] if pi < len(regions) and regions[pi][1] is not None else len(prev)
    for i in range(lo, hi + 1):
        if T1.startswith(prev[:i]) and T1.endswith(prev[i:]) and len(T1) - len(prev) >= 0 and T1[:i] == prev[:i] and T1[len(T1) - (len(prev) - i):] == prev[i:]: return True
    return False


def edit_class(w, i, prev):
    op = w['ops'][i]
    dup = False
    spans, _ = field_spans(prev)
    names = [s[2] for s in spans if s[3] == op['para']]
    if names.count(op['key']) > 1: return 'duplicate-name'
    if not prev.endswith('\n') and prev != '': return 'no-final-newline'
    if '#' in prev: return 'with-comment'
    return 'plain'


HARNESS = C04()
