"""C07: wrap-and-sort reformatting never changes content, keeps comments, is idempotent."""
import re, json
import z3
from mirsym.runner import Harness
from mirsym.values import *
from mirsym.models_core import veq
from mirsym.models_iter import getiter, drain
from .common import *
from .deb822_common import read_lossless
from .c01 import classify_panic

NAMES = ['B', 'A', 'D', 'A', 'C', 'E']        # file order: unsorted, with a duplicate
lower = lambda c: z3.And(c >= 97, c <= 122)


def o(s): return [ord(c) for c in s]


# ---- line structure of a deb822 text whose structural characters are concrete ------------------------------------------
def split_lines(chars):
    out = []; cur = []
    for c in chars:
        if isinstance(c, int) and c == 10: out.append(cur); cur = []
        else: cur.append(c)
    ended = not cur
    if cur: out.append(cur)
    return out, ended


def is_c(c, *vals): return isinstance(c, int) and c in vals


def kind_of(line):
    if not line: return 'blank'
    if is_c(line[0], 35): return 'comment'
    if is_c(line[0], 32, 9): return 'cont' if any(not is_c(c, 32, 9) for c in line) else 'blankcont'
    return 'field'


def trim(line):
    a = 0; b = len(line)
    while a < b and is_c(line[a], 32, 9): a += 1
    while b > a and is_c(line[b - 1], 32, 9): b -= 1
    return line[a:b]


def structure(lines):
    """-> (paragraphs, doc_trail); paragraph = {'lead': [...], 'fields': [{'pre', 'name', 'lines', 'raw'}], 'trail': [...]}"""
    paras = []; pending = []; cur = None; after_blank = True
    for ln in lines:
        k = kind_of(ln)
        if k == 'blank':
            if cur is not None: cur['trail'] = pending_in(cur, pending); pending = []; cur = None
            after_blank = True
        elif k == 'comment': pending.append(ln)
        elif k == 'field':
            i = next(j for j, c in enumerate(ln) if is_c(c, 58))
            name = ''.join(chr(c) for c in ln[:i])
            if cur is None: cur = {'lead': pending, 'fields': [], 'trail': []}; paras.append(cur); pre = []
            else: pre = pending
            pending = []
            cur['fields'].append({'pre': pre, 'name': name, 'lines': [ln[i + 1:]], 'raw': [ln]})
        else:
            if cur is None or not cur['fields']: raise ValueError('continuation line without a field')
            cur['fields'][-1]['lines'].append(ln); cur['fields'][-1]['raw'].append(ln)
    if cur is not None: cur['trail'] = pending; pending = []
    return paras, pending


def pending_in(cur, pending): return pending


def value_lines(f): return [trim(l) for l in f['lines'] if trim(l)]


def eq_line(e, a, b):
    if len(a) != len(b): return False
    return b_and(*[s_eq(x, y) for x, y in zip(a, b)])


def eq_lines(e, A, B):
    if len(A) != len(B): return False
    return b_and(*[eq_line(e, a, b) for a, b in zip(A, B)])


def comma_lines(lines):
    """reference for the 'comma-lines' formatter: the value's text split at commas, pieces trimmed, joined by ',<LF>'"""
    text = []
    for i, l in enumerate(lines):
        if i: text.append(10)
        text += l
    pieces = [[]]
    for c in text:
        if is_c(c, 44): pieces.append([])
        else: pieces[-1].append(c)
    def trim_all(p):
        a = 0; b = len(p)
        while a < b and is_c(p[a], 32, 9, 10): a += 1
        while b > a and is_c(p[b - 1], 32, 9, 10): b -= 1
        return p[a:b]
    pieces = [trim_all(p) for p in pieces]
    out = []
    for i, p in enumerate(pieces):
        seg = p + ([44] if i < len(pieces) - 1 else [])
        sub, _ = split_lines(seg) if any(is_c(c, 10) for c in seg) else ([seg], True)
        out += sub
    return [trim(l) for l in out if trim(l)]


def judge(e, src, out, setting):
    """checks relating the input text and the reformatted text (both char lists, structural characters concrete)"""
    checks = []
    ilines, _ = split_lines(src); olines, oended = split_lines(out)
    try: ip, itrail = structure(ilines)
    except (ValueError, StopIteration): return [('the generated input has deb822 structure', False)]
    try: op, otrail = structure(olines)
    except (ValueError, StopIteration): return [('the result has deb822 line structure (every line is a field, continuation, comment or blank)', False)]
    want = list(ip)
    if setting.get('sort_paragraphs'): want = sorted(want, key=lambda p: p['fields'][0]['name'] if p['fields'] else '')
    if len(op) != len(want): return checks + [('the result has the same number of paragraphs', False)]
    checks.append(('the result has the same number of paragraphs', True))
    for pi, (a, b) in enumerate(zip(want, op)):
        fa = list(a['fields'])
        if setting.get('sort_entries'): fa = sorted(fa, key=lambda f: f['name'])
        names_ok = [f['name'] for f in fa] == [f['name'] for f in b['fields']]
        checks.append(('paragraph %d keeps its fields in the requested order' % pi, names_ok))
        if not names_ok: continue
        # comments in front of a paragraph and in front of its first field are the same place in the text
        checks.append(('paragraph %d and its first field keep the comments in front of them' % pi, eq_lines(e, a['lead'] + fa[0]['pre'], b['lead'] + b['fields'][0]['pre'])))
        for fi_, (x, y) in enumerate(zip(fa, b['fields'])):
            if fi_: checks.append(('field %s keeps the comments in front of it' % x['name'], eq_lines(e, x['pre'], y['pre'])))
            vx = value_lines(x)
            if setting.get('formatter') == 'comma-lines' and not (x['pre'] and False): vx = comma_lines(x['lines'])
            checks.append(('field %s keeps its non-blank value lines' % x['name'], eq_lines(e, vx, value_lines(y))))
            n = setting['indent'] or len(x['name'])
            for raw in (y['raw'][1:] if setting.get('reformats', True) else []):
                if kind_of(raw) != 'cont': continue
                lead = 0
                while lead < len(raw) and is_c(raw[lead], 32, 9): lead += 1
                checks.append(('continuation lines of %s are indented by exactly %d spaces' % (x['name'], n), lead == n and all(is_c(c, 32) for c in raw[:lead])))
        if pi < len(op) - 1: checks.append(('paragraph %d keeps the comments after its last field' % pi, eq_lines(e, a['trail'], b['trail'])))
    # comments after everything: those closing the last paragraph and those after a blank line may end up in either place, in order
    last_in = (want[-1]['trail'] if want else []) if (not setting.get('sort_paragraphs') or not want or want[-1] is ip[-1]) else None
    if last_in is not None: checks.append(('comments after the last field and after the last paragraph are kept, in order', eq_lines(e, last_in + itrail, (op[-1]['trail'] if op else []) + otrail)))
    else:
        checks.append(('the last paragraph keeps the comments after its last field', eq_lines(e, want[-1]['trail'], op[-1]['trail'][:len(want[-1]['trail'])])))
        checks.append(('comments after the last paragraph are kept', eq_lines(e, itrail, op[-1]['trail'][len(want[-1]['trail']):] + otrail)))
    # exactly one blank line between paragraphs, none elsewhere
    kinds = [kind_of(l) for l in olines]
    blanks_ok = True
    for i, k in enumerate(kinds):
        if k == 'blank' and (i == 0 or i == len(kinds) - 1 or kinds[i - 1] == 'blank'): blanks_ok = False
    checks.append(('paragraphs are separated by exactly one blank line', blanks_ok and kinds.count('blank') == max(0, len(op) - 1) + (1 if (otrail and op) else 0)))
    return checks


# ---- document generator -----------------------------------------------------------------------------------------------------
def gen_document(e, L, one_paragraph=False, commas=False, rich=True, odd_ws=False, blank_cont=False):
    nl = e.choose('L', L) + 1
    text = []; prev = 'blank'; kinds = []; fi = 0; ci = 0; have_field = False
    for i in range(nl):
        opts = ['field'] + (['comment'] if not (one_paragraph and not have_field) else []) + ([] if one_paragraph else ['blank']) + (['cont'] if prev in ('field', 'cont') else [])
        if prev == 'blank' and 'blank' in opts and i > 0: opts.remove('blank')        # blank-line runs are a separate choice below
        k = opts[e.choose('kind', len(opts))]
        kinds.append(k)
        if k == 'field':
            name = NAMES[fi % len(NAMES)]; fi += 1; have_field = True
            if commas and fi == 1 and e.choose('cm', 2): v = [e.fresh_ascii('v', lower), 44, 32, e.fresh_ascii('v', lower)]
            elif fi == 1 and e.choose('emptyfirst', 2): v = []          # 'Name:' alone: an empty value, or a value that starts on the next line
            else: v = [e.fresh_ascii('v', lower)]
            sp = [[32], [], [32, 32]][e.choose('sp', 3 if rich else 2)] if fi == 1 else [32]
            if not v and sp == [32, 32]: sp = [32]
            text += o(name) + [58] + sp + v + [10]
        elif k == 'cont' and blank_cont and e.choose('bc', 2):
            text += [32] + ([9] if e.choose('bct', 2) else []) + [10]          # a continuation line of whitespace only (a blank value line)
        elif k == 'cont':
            # with a formatter: the value line may begin with a form feed (Unicode whitespace, but value text for deb822)
            ff = [12] if (odd_ws and e.choose('ff', 2)) else []
            text += [32] + ([32] if e.choose('ind', 2) else []) + ff + [e.fresh_ascii('w', lower)] + [10]
        elif k == 'comment': text += o('# c%d' % ci) + [10]; ci += 1
        else:
            text += [10] + ([10] if (rich and e.choose('dbl', 2)) else [])
        prev = k
    if not have_field: raise Infeasible()
    if text and e.choose('nofinal', 2): text = text[:-1] if is_c(text[-1], 10) and kinds[-1] != 'blank' else text
    return text, kinds


class C07(Harness):
    id = 'C07'
    op = 'wrap_sort'
    crates = ('deb822', 'control')
    fuel = 900000
    bounds = {'quick': {'lines': 3, 'indents': [2, 0], 'maxlens': [None, 6], 'control_lines': True},
              'thorough': {'lines': 4, 'indents': [1, 2, 3, 0], 'maxlens': [None, 6, 80], 'control_lines': True}}
    assumptions = ['documents of 1..L lines, each a field (names from the fixed file order B A D A C E, so unsorted and with a duplicate), a continuation line, a unique comment line, or a blank line (the blank-cont cases also allow a continuation line of whitespace only) (single or double; in the quick tier double blank lines and two blanks after the colon only in the plain-settings cases); value lines are one symbolic lower-case letter, in the identity-formatter cases optionally preceded by a form feed on continuation lines (the first field may have an empty first line, i.e. be empty or start on the next line) (the first field "x, y" in the comma-formatter cases); final newline optional; 0-2 blanks after the colon of the first field',
                   'settings (quick: 4 of the 12 comparator/formatter combinations at document level and 3 of 6 at paragraph level, thorough: all): indentation Spaces(n) for the listed n or FieldNameLength; immediate_empty_line both; max_line_length_one_liner None / small / large; entry comparator none / by field name; paragraph comparator none / by first field name; value formatter none / identity / "split at commas, one piece per line"',
                   'levels (the paragraph level starts with a field - comments in front of the first field belong to the document - and applies the second pass to the returned paragraph): Deb822::wrap_and_sort with a paragraph closure calling Paragraph::wrap_and_sort; Deb822::wrap_and_sort without a paragraph closure; Paragraph::wrap_and_sort on single-paragraph texts; Control::wrap_and_sort on control files with Source / Package paragraphs, an Uploaders list and a relation field',
                   'comment lines inside a multi-line value are outside the domain (C03)']
    oracle_leniency = ['blank lines between a top-level comment and the paragraph it precedes may be dropped', 'comments after the last paragraph may be attached to the end of the last paragraph (the statement only fixes comments in front of a field or paragraph); a missing final line terminator is not judged', 'the exact one-line / multi-line layout chosen for a value is not judged, only its non-blank lines, the indentation of continuation lines and the result being a fixpoint']

    def cases(self, tier):
        b = self.bounds[tier]; cs = []
        combos = {'doc': [(se, sp, fm) for se in (None, 'key') for sp in (None, 'first') for fm in (None, 'identity', 'comma-lines')],
                  'paragraph': [(se, None, fm) for se in (None, 'key') for fm in (None, 'identity', 'comma-lines')]}
        if tier == 'quick':
            combos = {'doc': [(None, None, None), ('key', 'first', None), (None, 'first', 'comma-lines'), ('key', None, 'identity')],
                      'paragraph': [(None, None, None), ('key', None, 'comma-lines'), (None, None, 'identity')]}
        for level in ('doc', 'paragraph'):
            for se, sp, fm in combos[level]:
                cs.append({'level': level, 'sort_entries': se, 'sort_paragraphs': sp, 'formatter': fm, 'L': b['lines'], 'indents': b['indents'], 'rich': tier != 'quick' or (se, sp, fm) == (None, None, None),
                           'maxlens': b['maxlens'] if (tier != 'quick' or fm != 'comma-lines') else [None],
                           'name': '%s:%s:%s:%s' % (level, se, sp, fm), 'order': 1})
        # one more line, plain settings only: room for two comments after the last paragraph, a comment between two fields of the second paragraph, ...
        cs.append({'level': 'doc', 'sort_entries': None, 'sort_paragraphs': None, 'formatter': None, 'L': b['lines'] + 1, 'indents': [2], 'maxlens': [None], 'rich': False, 'fixed_imm': False, 'name': 'doc-long', 'order': 1})
        # whitespace-only continuation lines (blank value lines) anywhere in a value
        cs.append({'level': 'paragraph', 'sort_entries': None, 'sort_paragraphs': None, 'formatter': None, 'L': b['lines'], 'indents': b['indents'], 'maxlens': [None], 'rich': False, 'blank_cont': True, 'name': 'paragraph-blank-cont', 'order': 1})
        if tier != 'quick': cs.append({'level': 'doc', 'sort_entries': 'key', 'sort_paragraphs': None, 'formatter': 'identity', 'L': b['lines'], 'indents': [2], 'maxlens': [None], 'rich': False, 'blank_cont': True, 'name': 'doc-blank-cont', 'order': 1})
        cs.append({'level': 'doc-plain', 'sort_entries': None, 'sort_paragraphs': 'first', 'formatter': None, 'L': b['lines'] + (0 if tier == 'quick' else 1), 'indents': [2], 'maxlens': [None], 'name': 'doc-plain', 'order': 0})
        cs.append({'level': 'control', 'sort_entries': None, 'sort_paragraphs': 'control', 'formatter': 'control', 'L': 0, 'indents': b['indents'], 'maxlens': b['maxlens'], 'name': 'control', 'order': 2})
        return cs

    # -- one reformatting pass through the real code --------------------------------------------------------------------------------
    def one_pass(self, e, case, st, text):
        level = case['level']
        ind_ty = e.prog.enum_lookup('Indentation', 'deb822')
        indent = EnumV(ind_ty, 'Spaces', [st['indent']]) if st['indent'] else EnumV(ind_ty, 'FieldNameLength')
        maxlen = SOME(st['maxlen']) if st['maxlen'] is not None else NONE()
        def key_of(eng, en):
            k = eng.call_path('deb822', 'lossless::Entry::key', [en])
            return eng.deref(k.slots[0]) if k.variant == 'Some' else Str([])
        def cmp_str(eng, a, b):
            sa, sb = a.py(), b.py()
            return EnumV('Ordering', 'Less' if sa < sb else 'Equal' if sa == sb else 'Greater')
        by_key = PyFn(lambda eng, a, b: cmp_str(eng, key_of(eng, a), key_of(eng, b)))
        def first_key(eng, p):
            it = eng.call_path('deb822', 'lossless::Paragraph::keys', [p])
            n = getiter(eng, it).next(eng)
            return eng.deref(n.slots[0]) if n.variant == 'Some' else Str([])
        by_first = PyFn(lambda eng, a, b: cmp_str(eng, first_key(eng, a), first_key(eng, b)))
        def fmt_identity(eng, k, v): return eng.deref(v)
        def fmt_comma(eng, k, v):
            chars = list(eng.deref(v).chars); pieces = [[]]
            for c in chars:
                if is_c(c, 44): pieces.append([])
                else: pieces[-1].append(c)
            def tr(p):
                a = 0; b = len(p)
                while a < b and is_c(p[a], 32, 9, 10, 13): a += 1
                while b > a and is_c(p[b - 1], 32, 9, 10, 13): b -= 1
                return p[a:b]
            out = []
            for i, p in enumerate(pieces):
                if i: out += [44, 10]
                out += tr(p)
            return Str(out)
        fm = {None: NONE(), 'identity': SOME(PyFn(fmt_identity)), 'comma-lines': SOME(PyFn(fmt_comma))}.get(case['formatter'], NONE())
        se = SOME(by_key) if case['sort_entries'] else NONE()
        def wrap_para(eng, p):
            return eng.call_path('deb822', 'lossless::Paragraph::wrap_and_sort', [p, indent, st['immediate'], maxlen, se, fm])
        if level in ('doc', 'doc-plain'):
            d = e.call_path('deb822', '<lossless::Deb822 as FromStr>::from_str', [Str(text)])
            if d.variant != 'Ok': return None
            sp = SOME(by_first) if case['sort_paragraphs'] else NONE()
            r = e.call_path('deb822', 'lossless::Deb822::wrap_and_sort', [Ref([d.slots[0]], [0]), sp, SOME(PyFn(wrap_para)) if level == 'doc' else NONE()])
            return call_to_string(e, 'deb822', 'lossless::Deb822', r), ('doc', r)
        if level == 'paragraph':
            if isinstance(text, tuple): pobj = text[1]          # second pass: on the returned paragraph itself
            else:
                p = e.call_path('deb822', '<lossless::Paragraph as FromStr>::from_str', [Str(text)])
                if p.variant != 'Ok': return None
                pobj = p.slots[0]
            r = wrap_para(e, Ref([pobj], [0]))
            return call_to_string(e, 'deb822', 'lossless::Paragraph', r), ('paragraph', r)
        c = e.call_path('control', '<lossless::control::Control as FromStr>::from_str', [Str(text)])
        if c.variant != 'Ok': return None
        e.call_path('control', 'lossless::control::Control::wrap_and_sort', [Ref([c.slots[0]], [0]), indent, st['immediate'], maxlen])
        return call_to_string(e, 'control', 'lossless::control::Control', c.slots[0]), ('doc', e.deref(c.slots[0]).slots[0])

    def control_text(self, e):
        """Package paragraph first, Source second (must be swapped); an Uploaders list, a relation field, comments"""
        u1, u2 = e.fresh_ascii('u', lower), e.fresh_ascii('u', lower)
        d1, d2 = e.fresh_ascii('d', lower), e.fresh_ascii('d', lower)
        e.assume(d1 < d2)
        var = e.choose('cv', 3)
        pkg = o('# about the package\nPackage: ') + [e.fresh_ascii('p', lower)] + o('\nDepends: ') + [d2] + o(',\n ') + [d1] + o('\n')
        src = o('Source: ') + [e.fresh_ascii('s', lower)] + o('\n# who\nUploaders: ') + [u1] + (o(', ') if var != 1 else o(',\n ')) + [u2] + o('\nBuild-Depends: ') + [d2] + o(' , ') + [d1] + o('\n')
        if var == 2: return src + [10] + pkg, {'swap': False, 'u': [u1, u2], 'd': [d1, d2]}
        return pkg + [10] + src, {'swap': True, 'u': [u1, u2], 'd': [d1, d2]}

    def run(self, e, case):
        st = {'indent': case['indents'][e.choose('indent', len(case['indents']))], 'immediate': (bool(e.choose('imm', 2)) if case.get('fixed_imm') is None else case['fixed_imm']), 'maxlen': case['maxlens'][e.choose('maxlen', len(case['maxlens']))],
              'sort_entries': case['sort_entries'], 'sort_paragraphs': case['sort_paragraphs'], 'formatter': case['formatter']}
        if case['level'] == 'control': text, meta = self.control_text(e)
        else: text, kinds = gen_document(e, case['L'], one_paragraph=(case['level'] == 'paragraph'), commas=(case['formatter'] == 'comma-lines'), rich=case.get('rich', True), odd_ws=(case['formatter'] == 'identity'), blank_cont=case.get('blank_cont', False))
        st['reformats'] = case['level'] != 'doc-plain'
        e.inputs.update(s=Str(text), level=case['level'], setting=st)
        r1 = self.one_pass(e, case, st, text)
        if r1 is None: return {'pred': {'accepted': False}, 'checks': [('an error-free document is accepted', False)]}
        t1, (kind, obj) = r1
        checks = []
        if case['level'] == 'control': checks += self.judge_control(e, text, list(t1.chars), st, meta)
        else: checks += judge(e, text, list(t1.chars), st)
        # the result parses strictly and re-reads to what the returned object reports
        d2 = e.call_path('deb822', '<lossless::Deb822 as FromStr>::from_str', [t1])
        checks.append(('the result parses strictly', d2.variant == 'Ok'))
        if d2.variant == 'Ok':
            got = read_lossless(e, d2.slots[0])
            if kind == 'doc': live = read_lossless(e, obj)
            else:
                it = e.call_path('deb822', 'lossless::Paragraph::items', [Ref([obj], [0])])
                live = [[(e.deref(x.slots[0]), e.deref(x.slots[1])) for x in drain(e, getiter(e, it))]]
                live = [p for p in live if p]
            same = len(got) == len(live) and all(len(a) == len(b) for a, b in zip(got, live)) and b_and(*[b_and(veq(e, k1, k2), veq(e, v1, v2)) for a, b in zip(got, live) for (k1, v1), (k2, v2) in zip(a, b)])
            checks.append(('re-reading the printed result gives the content the returned object reports', same))
            r2 = self.one_pass(e, case, st, ('object', obj) if case['level'] == 'paragraph' else list(t1.chars))
            checks.append(('reformatting the result again is accepted', r2 is not None))
            if r2 is not None: checks.append(('reformatting the result again changes nothing', veq(e, r2[0], t1)))
        return {'pred': {'text1': t1}, 'checks': checks}

    def judge_control(self, e, src, out, st, meta):
        """control wrapper: Source paragraph first; Uploaders one per line; relation fields canonical and sorted; comments stay with their field / paragraph"""
        checks = []
        olines, oended = split_lines(out)
        try: op, otrail = structure(olines)
        except (ValueError, StopIteration): return [('the result has deb822 line structure', False)]
        checks.append(('two paragraphs, Source first', len(op) == 2 and op[0]['fields'] and op[0]['fields'][0]['name'] == 'Source'))
        if len(op) != 2: return checks
        s_, p_ = op
        checks.append(('Source paragraph keeps its fields in order', [f['name'] for f in s_['fields']] == ['Source', 'Uploaders', 'Build-Depends']))
        checks.append(('Package paragraph keeps its fields in order', [f['name'] for f in p_['fields']] == ['Package', 'Depends']))
        checks.append(('the comment stays in front of the Package paragraph', eq_lines(e, p_['lead'], [o('# about the package')])))
        if len(s_['fields']) == 3 and len(p_['fields']) == 2:
            up = s_['fields'][1]
            checks.append(('the comment stays in front of Uploaders', eq_lines(e, up['pre'], [o('# who')])))
            u1, u2 = meta['u']; d1, d2 = meta['d']
            checks.append(('Uploaders: one per line', eq_lines(e, value_lines(up), [[u1, 44], [u2]])))
            checks.append(('Build-Depends is sorted and canonical', eq_lines(e, value_lines(s_['fields'][2]), [[d1, 44, 32, d2]])))
            checks.append(('Depends is sorted and canonical', eq_lines(e, value_lines(p_['fields'][1]), [[d1, 44, 32, d2]])))
            n = st['indent'] or len('Uploaders')
            for raw in up['raw'][1:]:
                lead = 0
                while lead < len(raw) and is_c(raw[lead], 32, 9): lead += 1
                checks.append(('Uploaders continuation lines are indented by exactly %d spaces' % n, lead == n))
        kinds = [kind_of(l) for l in olines]
        checks.append(('exactly one blank line between the paragraphs', kinds.count('blank') == 1 and kinds[0] != 'blank' and kinds[-1] != 'blank'))
        return checks

    # -- native side --------------------------------------------------------------------------------------------------------------------
    def request(self, case, w):
        st = w['setting']
        return {'op': 'wrap_sort', 's': w['s'], 'level': w['level'], 'indent': st['indent'], 'immediate': st['immediate'], 'maxlen': st['maxlen'],
                'sort_entries': st['sort_entries'], 'sort_paragraphs': st['sort_paragraphs'], 'formatter': st['formatter'] if st['formatter'] in ('identity', 'comma-lines') else None}

    def oracle(self, case, w, nat):
        if nat.get('timeout'): return [('hang', 'reformatting does not terminate on %r' % w['s'])]
        if 'crash' in nat: return [('crash', nat['crash'])]
        st = w['setting']; tag = '%s:%s' % (w['level'], setting_tag(st))
        if 'panic' in nat: return [('panic:%s:%s' % (classify_panic(nat['panic']), tag), 'wrap_and_sort panics on %r with %r: %s' % (w['s'], st, nat['panic'][:120]))]
        if 'error' in nat: return [('harness-error', nat['error'])]
        if not nat['ok']: return [('rejected:' + w['level'], 'error-free text %r rejected: %s' % (w['s'], nat.get('err', '')[:100]))]
        t1 = nat['text1']; v = []
        class _E: pass
        src = o(w['s']); out = o(t1)
        if w['level'] == 'control':
            lines = w['s']
            m = re.search(r'Uploaders: (\w),\s*(\w)', w['s']); d = re.search(r'Build-Depends: (\w) , (\w)', w['s'])
            meta = {'u': [ord(m.group(1)), ord(m.group(2))], 'd': [ord(d.group(2)), ord(d.group(1))]}
            cs = self.judge_control(None, src, out, st, meta)
        else: cs = judge(None, src, out, st)
        for label, cond in cs:
            if cond is not True and not (cond is not False and z3.is_true(z3.simplify(cond)) if is_sym(cond) else False):
                v.append(('%s:%s' % (slug(label), tag), '%s: %r with %r gives %r' % (label, w['s'], st, t1)))
        r1 = nat['reparse1']
        if not r1['ok']: v.append(('result-unparsable:' + tag, 'the result %r of %r does not parse: %s' % (t1, w['s'], r1['err'][:80])))
        elif r1['paras'] != [p for p in nat['live1'] if p]: v.append(('reread-differs:' + tag, 'result %r re-reads as %r, the returned object reports %r' % (t1, r1['paras'], nat['live1'])))
        s2 = nat['second']
        if r1['ok']:
            if not s2['ok']: v.append(('second-pass-fails:' + tag, 'reformatting %r again fails: %s' % (t1, s2['err'][:80])))
            elif s2['text'] != t1: v.append(('not-idempotent:' + tag, 'reformatting %r again gives %r' % (t1, s2['text'])))
        seen = set(); outv = []
        for c, m in v:
            if c not in seen: seen.add(c); outv.append((c, m))
        return outv

    def compare(self, case, pred, nat):
        if nat.get('ok') and 'text1' in pred and pred['text1'] != nat['text1']: return ['text1 %r vs %r' % (pred['text1'], nat['text1'])]
        return []

    def nontrivial(self, case, w): return True
    def coverage_keys(self, case, w, nat): return ['level=' + w['level'], 'indent=%s' % w['setting']['indent'], 'maxlen=%s' % w['setting']['maxlen'], 'formatter=%s' % w['setting']['formatter']]


def slug(label):
    s = re.sub(r'(paragraph|field) \S+ ', r'\1 ', label)
    s = re.sub(r'of \S+ are', 'are', s); s = re.sub(r'exactly \d+ spaces', 'exactly n spaces', s)
    return re.sub(r'[^a-z0-9]+', '-', s.lower()).strip('-')[:60]


def setting_tag(st):
    parts = []
    if st['sort_entries']: parts.append('sorted-entries')
    if st['sort_paragraphs']: parts.append('sorted-paragraphs')
    if st['formatter']: parts.append('fmt-' + st['formatter'])
    if st['immediate']: parts.append('immediate')
    if st['maxlen'] is not None: parts.append('maxlen')
    if not st['indent']: parts.append('field-name-indent')
    return '+'.join(parts) or 'plain'


HARNESS = C07()
