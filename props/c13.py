"""C13: relation wrap-and-sort yields a canonical, sorted, meaning-preserving form."""
import itertools
import z3
from mirsym.runner import Harness
from mirsym.values import *
from mirsym.models_core import veq
from mirsym.models_iter import getiter, drain
from .common import *
from .rel_common import *
from .c01 import classify_panic
from . import c10


def canon_relation(r):
    """reference rendering of one relation read back through the accessors (dict of symbolic values)"""
    t = list(r['name'].chars)
    if r['archqual'] is not None: t += [58] + list(r['archqual'].chars)
    if r['version'] is not None:
        op = {v: k for k, v in OPNAME.items()}[r['version'][0]]
        t += [32, 40] + o(op) + [32] + list(r['version'][1].chars) + [41]
    if r['archs'] is not None:
        t += [32, 91]
        for i, a in enumerate(r['archs']): t += ([32] if i else []) + list(a.chars)
        t += [93]
    for g in r['profiles']:
        t += [32, 60]
        for i, (v, p) in enumerate(g): t += ([32] if i else []) + ([33] if v == 'Disabled' else []) + list(p.chars)
        t += [62]
    return t


def rel_equal(e, g, w):
    """accessor view g == generated relation w (incl. negations)"""
    c = structure_cond(e, [[g]], [[w]], True)
    return c


def multiset_cond(e, got, want, eq):
    """exists a bijection between two short lists under eq"""
    if len(got) != len(want): return False
    if len(got) > 3: raise Unsupported('multiset of more than 3 elements')
    alts = []
    for perm in itertools.permutations(range(len(want))):
        alts.append(b_and(*[eq(g, want[j]) for g, j in zip(got, perm)]))
    return b_or(*alts)


CASES = {
    'sort-entries': {'entries': 2, 'alternatives': 1, 'version_kinds': 1, 'ws_styles': 1},
    'sort-alts':    {'entries': 1, 'alternatives': 2, 'version_kinds': 1, 'ws_styles': 1},
    'layout':   {'entries': 2, 'alternatives': 1, 'no_version': True, 'archqual': True, 'ws_styles': 4, 'empty_entries': True, 'trailing_comma': True},
    'parts':    {'entries': 1, 'alternatives': 1, 'archs': 2, 'profile_groups': 1, 'profile_terms': 2, 'version_kinds': 2, 'ws_styles': 2},
    'parts-layout': {'entries': 1, 'alternatives': 1, 'archs': 1, 'profile_groups': 1, 'profile_terms': 2, 'no_version': True, 'ws_styles': 5},
    'same-name': {'entries': 1, 'alternatives': 2, 'archs': 1, 'negation': False, 'no_version': True, 'ws_style': 5},
    'qualifier-layout': {'entries': 1, 'alternatives': 2, 'archqual': True, 'archqual_ws': True, 'version_kinds': 1, 'ws_styles': 5},
    'substvar': {'entries': 2, 'alternatives': 1, 'substvars': True, 'version_kinds': 1, 'ws_styles': 1},
    'pre-comma': {'entries': 3, 'alternatives': 1, 'no_version': True, 'pre_comma': True, 'ws_styles': 2},
}
FULL = {'sorting': {'entries': 2, 'alternatives': 2, 'version_kinds': 1, 'ws_styles': 1},
        'layout-v': {'entries': 2, 'alternatives': 1, 'archqual': True, 'version_kinds': 2, 'ws_styles': 4, 'empty_entries': True, 'trailing_comma': True},
        'parts2': {'entries': 1, 'alternatives': 1, 'archs': 2, 'profile_groups': 2, 'profile_terms': 2, 'version_kinds': 1, 'ws_styles': 2},
        'big': {'entries': 3, 'alternatives': 2, 'archqual': True, 'archs': 1, 'profile_groups': 1, 'version_kinds': 4, 'ws_styles': 2}}


class C13(Harness):
    id = 'C13'
    op = 'rel_wrap'
    crates = ('control',)
    fuel = 400000
    bounds = {'quick': CASES, 'thorough': dict(CASES, **FULL)}
    assumptions = ['input fields are generated as in C10 (same grammar, same symbolic identifier characters, whitespace layouts, empty entries, substvars)',
                   '"sorted" is judged under the crate\'s own Ord for Relation / Entry (consecutive pairs non-decreasing); that Ord is the sort key, not re-specified by the oracle',
                   'canonical text = entries joined by ", ", alternatives by " | ", relation "name[:archqual] (op version) [archs] <profiles>" with single spaces']

    def cases(self, tier): return [{'name': k, 'cfg': v, 'order': i} for i, (k, v) in enumerate(self.bounds[tier].items())]

    def run(self, e, case):
        g = RelGen(e, case['cfg'])
        text, entries = g.field()
        s = Str(text)
        want = [en for en in entries if isinstance(en, list)]
        want_sv = [en[1] for en in entries if isinstance(en, tuple)]
        e.inputs.update(s=s, spec=spec_json(entries), substvars=[Str(x) for x in want_sv], style=g.style)
        r = e.call_path('control', RL + 'Relations::parse_relaxed', [s, True])
        if len(e.deref(r.slots[1]).slots): return {'pred': {}, 'checks': [('input accepted (C10)', True)]}     # C10's subject; nothing to normalise
        out = e.call_path('control', RL + 'Relations::wrap_and_sort', [r.slots[0]])
        T1 = call_to_string(e, 'control', RL + 'Relations', out)
        checks = []; pred = {'text': T1}
        rr = e.call_path('control', RL + 'Relations::parse_relaxed', [T1, True])
        checks.append(('the result parses without error', len(e.deref(rr.slots[1]).slots) == 0))
        got, sv = read_lossless_field(e, rr.slots[0])
        # canonical text of the result's own structure
        canon = []
        for i, en in enumerate(got):
            if i: canon += [44, 32]
            for j, rel in enumerate(en): canon += ([32, 124, 32] if j else []) + canon_relation(rel)
        if not want_sv: checks.append(('the result is the canonical single-line text of its structure', veq(e, T1, Str(canon))))
        # sortedness under the crate's Ord
        ents = list(drain(e, getiter(e, e.call_path('control', RL + 'Relations::entries', [Ref([out], [0])]))))
        for a, b in zip(ents, ents[1:]):
            c = e.call_path('control', '<%sEntry as Ord>::cmp' % RL, [Ref([a], [0]), Ref([b], [0])])
            checks.append(('entries sorted', c.variant != 'Greater'))
        for en in ents:
            rs = list(drain(e, getiter(e, e.call_path('control', RL + 'Entry::relations', [Ref([en], [0])]))))
            for a, b in zip(rs, rs[1:]):
                c = e.call_path('control', '<%sRelation as Ord>::cmp' % RL, [Ref([a], [0]), Ref([b], [0])])
                checks.append(('alternatives sorted', c.variant != 'Greater'))
        # same multiset of entries, each the same multiset of alternatives with identical parts
        def entry_eq(ge, we): return multiset_cond(e, ge, we, lambda g_, w_: rel_equal(e, g_, w_))
        checks.append(('same dependencies as the input (multisets, all parts incl. negations)', multiset_cond(e, got, want, entry_eq)))
        checks.append(('substitution variables kept', multiset_cond(e, sv, want_sv, lambda a, b: veq(e, a, Str(b)))))
        again = e.call_path('control', RL + 'Relations::wrap_and_sort', [rr.slots[0]])
        checks.append(('normalising again returns identical text', veq(e, call_to_string(e, 'control', RL + 'Relations', again), T1)))
        return {'pred': pred, 'checks': checks}

    def oracle(self, case, w, nat):
        s = w['s']
        if nat.get('timeout'): return [('hang', 'wrap_and_sort does not terminate on %r' % s)]
        if 'crash' in nat: return [('crash', nat['crash'])]
        feats = sorted({f for en in w['spec'] if isinstance(en, list) for r in en for f in r['features']} | ({'substvar'} if w['substvars'] else set()))
        tag = ','.join(feats) or 'plain'
        if 'panic' in nat: return [('panic:%s:%s' % (classify_panic(nat['panic']), tag), 'wrap_and_sort panics on %r: %s' % (s, nat['panic'][:120]))]
        if 'input_errors' in nat: return []
        v = []; t = nat['text']
        if nat['reparse_errors']: v.append(('result-unparsable:' + tag, 'wrap_and_sort(%r) = %r does not parse' % (s, t)))
        st = nat['structure']
        if 'panic' in st: return v + [('result-accessor-panic:' + tag, 'accessor panics on result %r' % t)]
        want = [en for en in w['spec'] if isinstance(en, list)]
        if not w['substvars']:
            canon = ', '.join(' | '.join(py_canon(r) for r in en) for en in st['entries'])
            if t != canon: v.append(('not-canonical:' + tag, 'wrap_and_sort(%r) = %r, canonical form of its structure is %r' % (s, t, canon)))
            if '\n' in t: v.append(('not-single-line:' + tag, 'result %r contains a newline' % t))
        if not nat['sorted_entries'] or not all(nat['sorted_alts']): v.append(('not-sorted:' + tag, 'wrap_and_sort(%r) = %r is not sorted under the crate\'s Ord' % (s, t)))
        # multiset comparison of normalised descriptions
        def key_want(r): return (r['name'], r['archqual'], tuple(r['version']) if r['version'] else None, tuple(('!' if n else '') + a for n, a in r['archs']) if r['archs'] is not None else None, tuple(tuple(('!' if n else '') + p for n, p in g) for g in r['profiles']))
        def key_got(r): return (r['name'], r['archqual'], tuple(r['version']) if r['version'] else None, tuple(r['architectures']) if r['architectures'] is not None else None, tuple(tuple(g) for g in r['profiles']))
        W = sorted(tuple(sorted(map(repr, (key_want(r) for r in en)))) for en in want)
        G = sorted(tuple(sorted(map(repr, (key_got(r) for r in en)))) for en in st['entries'])
        def key_want_noneg(r): return (r['name'], r['archqual'], tuple(r['version']) if r['version'] else None, tuple(a for n, a in r['archs']) if r['archs'] is not None else None, tuple(tuple(('!' if n else '') + p for n, p in g) for g in r['profiles']))
        W0 = sorted(tuple(sorted(map(repr, (key_want_noneg(r) for r in en)))) for en in want)
        if W != G and W0 == G:
            # the only difference is the lost negation of architectures (positional diffing would mislabel it once the sort order changes)
            v.append(('meaning-changed:architectures-negation-lost:%s' % tag, 'wrap_and_sort(%r) = %r denotes %r' % (s, t, st['entries'])))
        elif W != G:
            aspects = c10.diff_structure(sorted(st['entries'], key=lambda en: sorted(repr(key_got(r)) for r in en)), sorted(want, key=lambda en: sorted(repr(key_want(r)) for r in en)))
            v.append(('meaning-changed:%s:%s' % ('+'.join(aspects) or 'order-dependent', tag), 'wrap_and_sort(%r) = %r denotes %r' % (s, t, st['entries'])))
        if sorted(st['substvars']) != sorted(w['substvars']): v.append(('substvars-lost:' + tag, 'wrap_and_sort(%r) = %r: substitution variables %r became %r' % (s, t, w['substvars'], st['substvars'])))
        t2 = nat['text2']
        if isinstance(t2, dict): v.append(('second-pass-panic:' + tag, 'second wrap_and_sort panics on %r' % t))
        elif t2 != t: v.append(('not-idempotent:' + tag, 'wrap_and_sort twice: %r then %r' % (t, t2)))
        return v

    def compare(self, case, pred, nat):
        if 'panic' in nat or 'input_errors' in nat: return []
        if 'text' in pred and pred['text'] != nat.get('text'): return ['text %r vs %r' % (pred['text'], nat.get('text'))]
        return []

    def coverage_keys(self, case, w, nat): return ['case=' + case['name'], 'style=%d' % w['style']]


def py_canon(r):
    t = r['name'] + (':' + r['archqual'] if r['archqual'] else '')
    if r['version']: t += ' (%s %s)' % (r['version'][0], r['version'][1])
    if r['architectures'] is not None: t += ' [' + ' '.join(r['architectures']) + ']'
    for g in r['profiles']: t += ' <' + ' '.join(g) + '>'
    return t


HARNESS = C13()
