"""C02: every text-parsing entry point is total (no panic, no hang) on any input."""
import z3, os
from mirsym.runner import Harness
from mirsym.values import *
from mirsym.models_core import veq
from mirsym import replay as replay_mod
from .common import *
from .c01 import classify_panic, ReadStub
from . import typed_common as tc

RL = 'lossless::relations::'
# entry -> (crate, MIR callee, kind) ; kind: 's' (one &str), 'sb' (&str, bool), 'read' (ReadStub), 'field' (name const, &str)
ENTRIES = {
    'deb822::Deb822::from_str': ('deb822', '<lossless::Deb822 as FromStr>::from_str', 's'),
    'deb822::Deb822::from_str_relaxed': ('deb822', 'lossless::Deb822::from_str_relaxed', 's'),
    'deb822::Paragraph::from_str': ('deb822', '<lossless::Paragraph as FromStr>::from_str', 's'),
    'deb822::lossy::Deb822::from_str': ('deb822', '<lossy::Deb822 as FromStr>::from_str', 's'),
    'deb822::lossy::Paragraph::from_str': ('deb822', '<lossy::Paragraph as FromStr>::from_str', 's'),
    'control::relations::Relations::from_str': ('control', '<%sRelations as FromStr>::from_str' % RL, 's'),
    'control::relations::Relations::parse_relaxed_false': ('control', RL + 'Relations::parse_relaxed', 'sF'),
    'control::relations::Relations::parse_relaxed_true': ('control', RL + 'Relations::parse_relaxed', 'sT'),
    'control::relations::Entry::from_str': ('control', '<%sEntry as FromStr>::from_str' % RL, 's'),
    'control::relations::Relation::from_str': ('control', '<%sRelation as FromStr>::from_str' % RL, 's'),
    'control::lossy::Relations::from_str': ('control', '<lossy::relations::Relations as FromStr>::from_str', 's'),
    'control::lossy::Relation::from_str': ('control', '<lossy::relations::Relation as FromStr>::from_str', 's'),
    'control::lossy::Control::from_str': ('control', '<lossy::control::Control as FromStr>::from_str', 's'),
    'control::lossy::apt::Release::from_str': ('control', None, 's'),
    'control::lossy::apt::Source::from_str': ('control', '<lossy::apt::Source as FromStr>::from_str', 's'),
    'control::lossy::apt::Package::from_str': ('control', '<lossy::apt::Package as FromStr>::from_str', 's'),
    'control::lossy::buildinfo::Buildinfo::from_str': ('control', '<lossy::buildinfo::Buildinfo as FromStr>::from_str', 's'),
    'control::lossy::ftpmaster::Removal::from_str': ('control', '<lossy::ftpmaster::Removal as FromStr>::from_str', 's'),
    'control::lossless::Control::from_str': ('control', '<lossless::control::Control as FromStr>::from_str', 's'),
    'control::lossless::apt::Source::from_str': ('control', '<lossless::apt::Source as FromStr>::from_str', 's'),
    'control::lossless::apt::Package::from_str': ('control', '<lossless::apt::Package as FromStr>::from_str', 's'),
    'control::lossless::apt::Release::from_str': ('control', '<lossless::apt::Release as FromStr>::from_str', 's'),
    'control::lossless::buildinfo::Buildinfo::from_str': ('control', '<lossless::buildinfo::Buildinfo as FromStr>::from_str', 's'),
    'control::changes::Changes::read': ('control', 'lossless::changes::Changes::read::<ReadStub>', 'read'),
    'control::changes::Changes::read_relaxed': ('control', 'lossless::changes::Changes::read_relaxed::<ReadStub>', 'read'),
    'control::changes::File::from_str': ('control', '<lossless::changes::File as FromStr>::from_str', 's'),
    'control::pgp::strip_pgp_signature': ('control', 'pgp::strip_pgp_signature', 's'),
    'control::vcs::ParsedVcs::from_str': ('control', '<vcs::ParsedVcs as FromStr>::from_str', 's'),
    'control::vcs::Vcs::from_field': ('control', 'vcs::Vcs::from_field', 'field'),
    'control::parse_identity': ('control', 'parse_identity', 's'),
    'control::fields::Priority::from_str': ('control', '<fields::Priority as FromStr>::from_str', 's'),
    'control::fields::Urgency::from_str': ('control', '<fields::Urgency as FromStr>::from_str', 's'),
    'control::fields::MultiArch::from_str': ('control', '<fields::MultiArch as FromStr>::from_str', 's'),
    'control::fields::Md5Checksum::from_str': ('control', '<fields::Md5Checksum as FromStr>::from_str', 's'),
    'control::fields::Sha1Checksum::from_str': ('control', '<fields::Sha1Checksum as FromStr>::from_str', 's'),
    'control::fields::Sha256Checksum::from_str': ('control', '<fields::Sha256Checksum as FromStr>::from_str', 's'),
    'control::fields::Sha512Checksum::from_str': ('control', '<fields::Sha512Checksum as FromStr>::from_str', 's'),
    'control::fields::PackageListEntry::from_str': ('control', '<fields::PackageListEntry as FromStr>::from_str', 's'),
    'control::relations::VersionConstraint::from_str': ('control', '<relations::VersionConstraint as FromStr>::from_str', 's'),
    'control::relations::BuildProfile::from_str': ('control', '<relations::BuildProfile as FromStr>::from_str', 's'),
    'copyright::lossless::Copyright::from_str': ('copyright', '<lossless::Copyright as FromStr>::from_str', 's'),
    'copyright::lossless::Copyright::from_str_relaxed': ('copyright', 'lossless::Copyright::from_str_relaxed', 's'),
    'copyright::lossy::Copyright::from_str': ('copyright', '<lossy::Copyright as FromStr>::from_str', 's'),
    'copyright::License::from_str': ('copyright', '<License as FromStr>::from_str', 's'),
    'dep3::lossless::PatchHeader::from_str': ('dep3', '<lossless::PatchHeader as FromStr>::from_str', 's'),
    'dep3::lossy::PatchHeader::from_str': ('dep3', '<lossy::PatchHeader as FromStr>::from_str', 's'),
    'dep3::Forwarded::from_str': ('dep3', '<fields::Forwarded as FromStr>::from_str', 's'),
    'dep3::OriginCategory::from_str': ('dep3', '<fields::OriginCategory as FromStr>::from_str', 's'),
    'dep3::Origin::from_str': ('dep3', '<fields::Origin as FromStr>::from_str', 's'),
    'dep3::AppliedUpstream::from_str': ('dep3', '<fields::AppliedUpstream as FromStr>::from_str', 's'),
    'aptsources::Repositories::from_str': ('aptsources', '<Repositories as FromStr>::from_str', 's'),
    'aptsources::RepositoryType::from_str': ('aptsources', '<RepositoryType as FromStr>::from_str', 's'),
    'aptsources::YesNoForce::from_str': ('aptsources', '<YesNoForce as FromStr>::from_str', 's'),
    'aptsources::Signature::from_str': ('aptsources', '<signature::Signature as FromStr>::from_str', 's'),
}
VCS_FIELDS = ['Git', 'Bzr', 'Hg', 'Svn', 'Cvs', 'Browser', 'Unknown']
# per-entry free-text bound (quick, thorough); entries already exhausted by C01/C06/C09 keep a small bound here
RELCUT_TEXTS = ['a:any (>= 1:2-3) [b !c] <d !e> <f> | g, h (<< 4)', '${a:b}, c [d] | e']
FREE = {'deb822::': (3, 4), 'control::relations::R': (2, 3), 'control::relations::E': (2, 3)}


def harvest_strings(eng, crate, callee, depth=3):
    """string constants reachable from an entry point (call graph of the MIR, bounded depth)"""
    import re
    seen = set(); out = set()
    def walk(f, d):
        if f in seen: return
        seen.add(f)
        for b, sts in f.blocks.items():
            for st in sts:
                for m in re.finditer(r"\('const', '\"((?:[^\"\\\\]|\\\\.)*)\"'\)", repr(st)):
                    out.add(m.group(1))
                if st[0] == 'call' and isinstance(st[2], str) and d > 0:
                    try: g = eng.resolve_local(st[2], f.crate)
                    except Exception: g = None
                    if g is not None: walk(g, d - 1)
        for pf in f.promoted.values(): walk(pf, d)
    try: f0 = eng.resolve_local(callee, crate)
    except Exception: f0 = None
    if f0 is not None: walk(f0, depth)
    return out


KW_ENTRIES = [k for k in ENTRIES if '::fields::' in k or k.startswith(('dep3::F', 'dep3::O', 'dep3::A', 'aptsources::R', 'aptsources::Y', 'aptsources::S', 'copyright::License'))
              or k.endswith(('VersionConstraint::from_str', 'BuildProfile::from_str', 'parse_identity', 'ParsedVcs::from_str', 'File::from_str'))]


def free_bound(entry, tier):
    for k, v in FREE.items():
        if entry.startswith(k): return v[0 if tier == 'quick' else 1]
    return 3 if tier == 'quick' else 4


class C02(Harness):
    id = 'C02'
    op = 'total'
    crates = ('deb822', 'control', 'copyright', 'dep3', 'aptsources')
    fuel = 80000
    bounds = {'quick': {'free_text_max_chars': 3, 'doc_value_max_chars': 1}, 'thorough': {'free_text_max_chars': 4, 'doc_value_max_chars': 2}}
    assumptions = ['free text: every string of 0..N Unicode scalar values per entry point (N per tier and entry point, in coverage.per_case); for the field codecs additionally every length (<= 12) that a string constant reachable in their MIR has, fully symbolic',
                   'VCS fields: url, separator, "[" subpath "]", separator, "-b", separator, branch with every separator and component character symbolic',
                   'relationship fields (all seven relation readers): two concrete fields carrying every optional part (qualifier, epoch version, architecture list with negation, two profile groups, alternative, second entry, substitution variable), cut off at every position and followed by nothing / a blank / a newline / a closing bracket / a letter (thorough: any one character)',
                   'typed documents: a base document accepted by the real reader (mandatory fields found by native probing) in which one field value is replaced by symbolic text',
                   'std::io::Read is an environment stub delivering the text; from_file*, pyo3 and OOM/stack depth are outside the claim',
                   'wall-clock complexity is not decided; every path is bounded by a fuel of basic blocks and hangs are confirmed natively under a watchdog']

    def cases(self, tier):
        cs = []
        for entry in ENTRIES:
            nmax = free_bound(entry, tier)
            names = VCS_FIELDS if entry.endswith('from_field') else [None]
            for nm in names:
                for n in range(nmax + 1):
                    cs.append({'entry': entry, 'fam': 'free', 'n': n, 'name': nm, 'order': n})
        # keyword-length texts for the codecs: every length a string constant compared in the code has (so keyword arms are reachable)
        try:
            from mirsym import mirdump
            from mirsym.engine import Engine, Program
            mirfiles, _, _ = mirdump.dump_all()
            eng = Engine(Program(mirfiles, mirdump.REPO))
            for entry in KW_ENTRIES:
                crate, callee, kind = ENTRIES[entry]
                lens = sorted({len(x) for x in harvest_strings(eng, crate, callee) if free_bound(entry, tier) < len(x) <= 12})
                for n in lens: cs.append({'entry': entry, 'fam': 'free', 'n': n, 'name': None, 'order': 4, 'kw': True})
        except Exception as ex:
            print('C02: keyword-length cases skipped: %r' % (ex,))
        # VCS locations: "<url><sep>[<subpath>]" and "<url><sep>-b<sep><branch>" with symbolic separators and components
        for entry in ('control::vcs::ParsedVcs::from_str', 'control::vcs::Vcs::from_field'):
            for nm in ((['Git', 'Cvs'] if tier == 'quick' else ['Git', 'Bzr', 'Cvs']) if entry.endswith('from_field') else [None]):
                cs.append({'entry': entry, 'fam': 'vcs', 'n': 1 if tier == 'quick' else 2, 'name': nm, 'order': 3})
        # relationship fields cut off at every position, optionally followed by a blank / newline / stray character (error recovery paths)
        for entry in ('control::relations::Relations::from_str', 'control::relations::Relations::parse_relaxed_false', 'control::relations::Relations::parse_relaxed_true',
                      'control::relations::Entry::from_str', 'control::relations::Relation::from_str', 'control::lossy::Relations::from_str', 'control::lossy::Relation::from_str'):
            cs.append({'entry': entry, 'fam': 'relcut', 'n': 1 if tier == 'quick' else 2, 'name': None, 'order': 3, 'substvars': entry.endswith('_true')})
        # typed documents
        try:
            rp = replay_mod.Replay(replay_mod.build())
            table = tc.deriving_structs()
            vmax = self.bounds[tier]['doc_value_max_chars']
            for entry, structs in tc.DOCS.items():
                paras, ok = tc.calibrate(rp, entry, structs, table)
                if not ok: continue
                for pi, key in enumerate(structs):
                    for f in table[key]['fields']:
                        if not f['field']: continue
                        cs.append({'entry': entry, 'fam': 'doc', 'base': paras, 'para': pi, 'field': f['field'], 'n': vmax, 'order': 5})
            rp.stop()
        except Exception as ex:
            print('C02: typed-document cases skipped: %r' % (ex,))
        return cs

    def run(self, e, case):
        entry = case['entry']
        crate, callee, kind = ENTRIES[entry]
        if case['fam'] == 'free':
            s = sym_text(e, case['n'])
        elif case['fam'] == 'vcs':
            def part(name, mx):
                return [e.fresh_char(name) for _ in range(e.choose(name + 'len', mx) + 1)]
            chars = part('u', case['n'])
            shape = e.choose('shape', 3)
            if shape in (0, 2): chars += [e.fresh_char('sep'), 91] + part('p', case['n']) + [93]
            if shape in (1, 2): chars += [e.fresh_char('sep'), 45, 98, e.fresh_char('sep')] + part('b', case['n'])
            if e.choose('tail', 2): chars += [e.fresh_char('t')]
            s = Str(chars)
        elif case['fam'] == 'relcut':
            text = [ord(c) for c in RELCUT_TEXTS[e.choose('text', len(RELCUT_TEXTS))]]
            cut = e.choose('cut', len(text) + 1)
            chars = list(text[:cut])
            if case['n'] > 1:
                if e.choose('tail', 2): chars += [e.fresh_char('t')]       # thorough: any one character
            else:
                t = e.choose('tail', 5)                                    # quick: nothing / blank / newline / closing bracket / letter
                if t: chars += [[32], [10], [41], [97]][t - 1]
            s = Str(chars)
        else:
            # base document with one field value symbolic (0..n chars, no line terminators)
            k = e.choose('vl', case['n'] + 1)
            val = []
            for i in range(k):
                c = e.fresh_char('v'); e.assume(z3.And(c != 10, c != 13)); val.append(c)
            paras = [[list(kv) for kv in p] for p in case['base']]
            p = paras[case['para']]
            hit = [kv for kv in p if kv[0] == case['field']]
            chars = []
            for pi, pp in enumerate(paras):
                if pi: chars.append(10)
                lines = list(pp)
                if pi == case['para'] and not hit: lines.append([case['field'], None])
                for kk, vv in lines:
                    chars += [ord(x) for x in kk] + [58, 32]
                    if pi == case['para'] and kk == case['field']: chars += val
                    else: chars += [ord(x) for x in vv]
                    chars.append(10)
            s = Str(chars)
        e.inputs['s'] = s; e.inputs['entry'] = entry; e.inputs['name'] = case.get('name') or ''
        if callee is None:
            p = e.call_path('deb822', '<lossy::Paragraph as FromStr>::from_str', [s])
            if p.variant == 'Ok':
                e.call_path('control', '<lossy::apt::Release as FromDeb822Paragraph<deb822_lossless::lossy::Paragraph>>::from_paragraph', [Ref([p.slots[0]], [0])])
        elif kind == 's': e.call_path(crate, callee, [s])
        elif kind == 'sF': e.call_path(crate, callee, [s, False])
        elif kind == 'sT': e.call_path(crate, callee, [s, True])
        elif kind == 'read': e.call_path(crate, callee, [ReadStub(s)])
        elif kind == 'field': e.call_path(crate, callee, [mkstr(case['name']), s])
        return {'pred': {'returned': True}, 'checks': [('entry point returned a value or an error', True)]}

    def oracle(self, case, w, nat):
        s = w['s']; ent = w['entry']
        if nat.get('timeout'): return [('hang:%s' % ent, '%s does not terminate on %r' % (ent, s))]
        if 'crash' in nat: return [('crash:%s' % ent, '%s aborts (stack overflow / memory exhaustion) on %r: %s' % (ent, s, nat['crash']))]
        if 'panic' in nat: return [('panic:%s:%s' % (ent, classify_panic(nat['panic'])), '%s panics on %r: %s' % (ent, s, nat['panic'][:200]))]
        if 'error' in nat: return [('harness-error', nat['error'])]
        return []

    def nontrivial(self, case, w): return len(w['s']) >= 1
    def coverage_keys(self, case, w, nat):
        return ['entry=' + case['entry'], 'family=' + case['fam']] + (['result=%s' % ('ok' if nat.get('ok') else 'err')] if 'ok' in nat else [])


HARNESS = C02()
