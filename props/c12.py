"""C12: dependency satisfaction is decided per Debian semantics."""
import z3, re
from mirsym.runner import Harness
from mirsym.values import *
from mirsym.engine import model
from mirsym.models_core import veq
from mirsym.models_iter import MapV
from mirsym.models_ext import version_parse
from .common import *
from .c01 import classify_panic

RL = 'lossless::relations::'
OPS = ['<<', '<=', '=', '>=', '>>']
NAMES = ['a', 'b', 'c', 'd']


def lookup_impl(e, kind):
    for f in e.prog.methods.get('lookup_version', []):
        info = e.prog.impl_info(f)
        if not info or f.crate != 'control' or '{closure' in f.name: continue
        st = info['self'] or ''
        if kind == 'map' and 'HashMap' in st: return f
        if kind == 'pair' and st.startswith('('): return f
        if kind == 'fn' and st in info['params']: return f
    raise Unsupported('VersionLookup impl for %s not found' % kind)


def lookup_dispatch(e, c, a, raw):
    v = e.deref(a[0])
    kind = 'map' if isinstance(v, MapV) else 'pair' if isinstance(v, Agg) and v.ty == 'tuple' else 'fn'
    recv = a[0] if isinstance(a[0], Ref) else Ref([v], [0])
    return e.run_fn(lookup_impl(e, kind), [e.deref1(recv), a[1]])


class C12(Harness):
    id = 'C12'
    op = 'satisfied'
    crates = ('control',)
    fuel = 120000
    bounds = {'quick': {'shapes': [[1], [2], [1, 1]], 'pool': 2, 'spelled': [[1]]}, 'thorough': {'shapes': [[1], [2], [1, 1], [2, 1], [2, 2], [1, 1, 1], [3]], 'pool': 3, 'spelled': [[1], [2], [1, 1]]}}
    assumptions = ['fields: entries x alternatives in the shapes listed in bounds, package names from a pool of distinct names, every alternative unversioned or (op, v) with all five operators',
                   'versions are single decimal digits 1..9 (symbolic), so that Debian version order coincides with digit order; installed map: every pool name absent or present with a symbolic digit version; in the "spelled" cases the installed version d is written d / 0:d / d-0 / 0d (equal under Debian ordering)',
                   'fields are built by parsing canonical text "a (>= 2) | b, c"; the lossless evaluator is called with a closure lookup (its API requires Copy), the lossy per-relation evaluator with closure, HashMap and (String, Version)']

    def cases(self, tier):
        b = self.bounds[tier]
        return [{'shape': sh, 'pool': b['pool'], 'order': sum(sh)} for sh in b['shapes']] + [{'shape': sh, 'pool': b['pool'], 'spelled': True, 'order': sum(sh) + 1} for sh in b['spelled']]

    def run(self, e, case):
        pool = NAMES[:case['pool']]
        digit = lambda nm: (lambda c: (e.assume(z3.And(c >= 49, c <= 57)), c)[1])(e.fresh_ascii(nm))
        text = []; spec = []
        for ei, na in enumerate(case['shape']):
            if ei: text += [44, 32]
            alts = []
            for ai in range(na):
                if ai: text += [32, 124, 32]
                nm = pool[e.choose('name', len(pool))]
                text += [ord(nm)]
                if e.choose('versioned', 2):
                    op = OPS[e.choose('op', 5)]; v = digit('r')
                    text += [32, 40] + [ord(x) for x in op] + [32, v, 41]
                    alts.append((nm, op, v))
                else: alts.append((nm, None, None))
            spec.append(alts)
        installed = {}
        for nm in pool:
            if e.choose('inst', 2): installed[nm] = digit('i')
        # how the installed versions are spelled: d / 0:d / d-0 / 0d denote the same Debian version
        form = e.choose('spelling', 4) if case.get('spelled') else 0
        def spell(c): return [[c], [48, 58, c], [c, 45, 48], [48, c]][form]
        s = Str(text)
        e.inputs.update(s=s, installed={k: Str(spell(v)) for k, v in installed.items()}, spec=[[[n, o, (Str([v]) if v is not None else None)] for n, o, v in alts] for alts in spec])
        # reference semantics (the statement's definition)
        def holds(nm, op, r):
            if nm not in installed: return False
            if op is None: return True
            i = installed[nm]
            return {'<<': i < r, '<=': i <= r, '=': i == r, '>=': i >= r, '>>': i > r}[op]
        want = b_and(*[b_or(*[holds(*a) for a in alts]) for alts in spec])
        # installed versions as values
        def ver(c): return version_parse(e, Str(spell(c)))
        def lookup_py(eng, name):
            n = eng.deref(name)
            for k, c in installed.items():
                if eng.branch(veq(eng, n, mkstr(k))): return SOME(ver(c))
            return NONE()
        checks = []
        r = e.call_path('control', '<%sRelations as FromStr>::from_str' % RL, [s])
        if r.variant != 'Ok': return {'pred': {}, 'checks': [('canonical field parses (lossless)', False)]}
        got = e.call_path('control', RL + 'Relations::satisfied_by::<PyFn>', [Ref([r.slots[0]], [0]), PyFn(lookup_py)])
        checks.append(('lossless Relations::satisfied_by == definition', s_eq_bool(got, want)))
        ly = e.call_path('control', '<lossy::relations::Relations as FromStr>::from_str', [s])
        if ly.variant != 'Ok': return {'pred': {}, 'checks': [('canonical field parses (lossy)', False)]}
        got2 = e.call_path('control', 'lossy::relations::Relations::satisfied_by::<PyFn>', [Ref([ly.slots[0]], [0]), PyFn(lookup_py)])
        checks.append(('lossy Relations::satisfied_by == definition', s_eq_bool(got2, want)))
        # lookup forms on every lossy relation
        m = MapV(); m.items = [[mkstr(k), ver(c)] for k, c in installed.items()]
        rels = [rel for ent in e.deref(ly.slots[0]).slots[0].slots for rel in e.deref(ent).slots]
        flat = [a for alts in spec for a in alts]
        pred_rel = []
        for rel, a in zip(rels, flat):
            w = holds(*a)
            g1 = e.call_path('control', 'lossy::relations::Relation::satisfied_by::<HashMap>', [Ref([rel], [0]), m])
            checks.append(('lossy Relation::satisfied_by(HashMap) == definition', s_eq_bool(g1, w)))
            g2 = e.call_path('control', 'lossy::relations::Relation::satisfied_by::<PyFn>', [Ref([rel], [0]), PyFn(lookup_py)])
            checks.append(('lossy Relation::satisfied_by(closure) == definition', s_eq_bool(g2, w)))
            if len(installed) == 1:
                k, c = list(installed.items())[0]
                g3 = e.call_path('control', 'lossy::relations::Relation::satisfied_by::<(String, Version)>', [Ref([rel], [0]), Agg('tuple', [mkstr(k), ver(c)])])
                checks.append(('lossy Relation::satisfied_by((name, version)) == definition', s_eq_bool(g3, w)))
        return {'pred': {'lossless': got, 'lossy': got2}, 'checks': checks}

    def oracle(self, case, w, nat):
        if nat.get('timeout'): return [('hang', 'native run does not terminate on %r' % w)]
        if 'crash' in nat: return [('crash', nat['crash'])]
        v = []
        inst = {k: int(x.split(':')[-1].split('-')[0]) for k, x in w['installed'].items()}
        def holds(a):
            nm, op, r = a
            if nm not in inst: return False
            if op is None: return True
            i, r = inst[nm], int(r)
            return {'<<': i < r, '<=': i <= r, '=': i == r, '>=': i >= r, '>>': i > r}[op]
        want = all(any(holds(a) for a in alts) for alts in w['spec'])
        ll, ly = nat['lossless'], nat['lossy']
        if 'panic' in ll: v.append(('panic:lossless:' + classify_panic(ll['panic']), 'lossless evaluator panics on %r: %s' % (w['s'], ll['panic'][:120])))
        elif ll['all'] != want: v.append(('wrong:lossless', 'lossless satisfied_by(%r, %r) = %r, definition gives %r' % (w['s'], inst, ll['all'], want)))
        if 'panic' in ly: v.append(('panic:lossy:' + classify_panic(ly['panic']), 'lossy evaluator panics on %r: %s' % (w['s'], ly['panic'][:120])))
        else:
            if ly['all'] != want: v.append(('wrong:lossy', 'lossy satisfied_by(%r, %r) = %r, definition gives %r' % (w['s'], inst, ly['all'], want)))
            flat = [a for alts in w['spec'] for a in alts]
            for a, r in zip(flat, ly['relations']):
                for form in ('closure', 'map', 'pair'):
                    if r[form] is not None and r[form] != holds(a): v.append(('wrong:lossy-relation:' + form, 'lossy Relation %r with %s lookup %r = %r' % (a, form, inst, r[form])))
        return v

    def compare(self, case, pred, nat):
        d = []
        if 'panic' in nat['lossless'] or 'panic' in nat['lossy']: return ['native panics']
        if pred.get('lossless') != nat['lossless']['all']: d.append('lossless %r vs %r' % (pred.get('lossless'), nat['lossless']['all']))
        if pred.get('lossy') != nat['lossy']['all']: d.append('lossy %r vs %r' % (pred.get('lossy'), nat['lossy']['all']))
        return d

    def coverage_keys(self, case, w, nat):
        return ['shape=%s' % case['shape']] + ['op=%s' % a[1] for alts in w['spec'] for a in alts] + ['installed=%d' % len(w['installed'])]


def s_eq_bool(got, want):
    if isinstance(got, bool) and isinstance(want, bool): return got == want
    g = got if is_sym(got) else z3.BoolVal(got); w = want if is_sym(want) else z3.BoolVal(want)
    return g == w


def install(e):
    e.hook_patterns.append((re.compile(r'^<.* as (crate::)?VersionLookup>::lookup_version$'), lookup_dispatch))


HARNESS = C12()
