"""Shared pieces of the deb822 harnesses: structured-document generator (shapes S1/S2/S3), readers."""
import z3
from mirsym.values import *
from mirsym.models_core import veq
from mirsym.models_iter import getiter, drain
from mirsym.models_str import is_ws


# ---- character domains (assumptions on symbolic content characters) ------------------------------
def keych(c): return z3.And(c >= 0x21, c <= 0x7e, c != 58)
def keyinit(c): return z3.And(keych(c), c != 45, c != 35)
def valch(c): return z3.And(c != 10, c != 13)
def valstart(c): return z3.And(c != 10, c != 13, c != 32, c != 9)
def contstart(c): return z3.And(valstart(c), c != 35)
def lower(c): return z3.And(c >= 97, c <= 122)


class Gen:
    """document generator over an Engine: every choice is a fork, every content char a constrained fresh term"""
    def __init__(s, e, letters_only=False):
        s.e = e; s.letters = letters_only
    def ch(s, name, cond):
        if s.letters: return s.e.fresh_ascii(name, lower)
        if cond in (keych, keyinit): return s.e.fresh_ascii(name, cond)
        c = s.e.fresh_char(name)
        s.e.assume(cond(c))
        return c
    def choose(s, name, k): return s.e.choose(name, k)


def gen_doc(e, shape, L, final_nl_free=True, w=2, cont_hash=False, blank_cont=False, eol_free=False):
    """returns (text: list of chars, paras: [[(name chars, [line chars...])...]...], kinds: [line kinds])

    S1: one layout per line kind: 'k: v' / ' v' / '#c' / '' with 1-char names and value lines, chars fully symbolic
    S2: same skeletons, content chars assumed a-z
    S3: <= L (<=2) lines, every layout parameter free (name length 1..2, 0..2 spaces/tabs after ':', value length 0..2,
        indentation 1..2 of space/tab, comment length 0..2)
    """
    g = Gen(e, letters_only=(shape == 'S2'))
    text = []; paras = []; cur = None; prev = 'blank'; kinds = []
    nl = g.choose('L', L) + 1
    for i in range(nl):
        opts = ['field', 'comment', 'blank'] + (['cont'] if prev in ('field', 'cont') else [])
        kind = opts[g.choose('kind', len(opts))]
        kinds.append(kind)
        last = (i == nl - 1)
        if kind == 'field':
            if shape == 'S3':
                k = [g.ch('k', keyinit)] + ([g.ch('k', keych)] if g.choose('kl', 2) else [])
                sp = [(32 if g.choose('spc', 2) == 0 else 9) for _ in range(g.choose('sp', w + 1))]
                vl = g.choose('vl', w + 1)
                v = ([g.ch('v', valstart)] + [g.ch('v', valch) for _ in range(vl - 1)]) if vl else []
            else:
                k = [g.ch('k', keyinit)]
                sp = [32]
                v = [g.ch('v', valstart)] if g.choose('vl', 2) else []
            text += k + [58] + sp + v
            if cur is None: cur = []; paras.append(cur)
            cur.append((k, [v]))
        elif kind == 'cont':
            if shape == 'S3':
                ind = [(32 if g.choose('it', 2) == 0 else 9) for _ in range(g.choose('il', w) + 1)]
                v = [g.ch('v', valstart if cont_hash else contstart)] + ([g.ch('v', valch)] if g.choose('vl', 2) else [])
            elif blank_cont and g.choose('blankc', 2):
                ind = [32 if g.choose('it', 2) == 0 else 9]; v = []        # a continuation line of whitespace only
            else:
                ind = [32]
                v = [g.ch('v', valstart if cont_hash else contstart)]
            text += ind + v; cur[-1][1].append(v)
        elif kind == 'comment':
            if shape == 'S3': cm = [g.ch('c', valch) for _ in range(g.choose('cl', w + 1))]
            else: cm = [g.ch('c', valch)] if g.choose('cl', 2) else []
            text += [35] + cm
        else:
            cur = None
        if not last or not final_nl_free or g.choose('fnl', 2):
            text += [[10], [13], [13, 10]][g.choose('eol', 3)] if eol_free else [10]     # eol_free: the line ends in LF, a bare CR or CR LF
        prev = kind
    return text, paras, kinds


def model_value(lines):
    """lines joined by LF"""
    out = []
    for j, ln in enumerate(lines):
        if j: out.append(10)
        out += ln
    return out


def model_values_accepted(lines):
    """the statement is silent on whether an empty first line is kept: accept both renderings (DESIGN 4.5 (i))"""
    vs = [model_value(lines)]
    if len(lines) > 1 and len(lines[0]) == 0: vs.append(model_value(lines[1:]))
    return vs


def read_items(e, p, crate='deb822'):
    it = getiter(e, e.call_path(crate, 'lossless::Paragraph::items', [Ref([p], [0])]))
    return [(x.slots[0], x.slots[1]) for x in drain(e, it)]


def read_paragraphs(e, d, crate='deb822'):
    it = getiter(e, e.call_path(crate, 'lossless::Deb822::paragraphs', [Ref([d], [0])]))
    return list(drain(e, it))


def read_lossless(e, d):
    return [read_items(e, p) for p in read_paragraphs(e, d)]


def read_lossy(e, d):
    """lossy::Deb822(Vec<Paragraph{fields: Vec<Field{name,value}>}>) -> [[(name, value)]]"""
    out = []
    for p in e.deref(d).slots[0].slots:
        out.append([(f.slots[0], f.slots[1]) for f in e.deref(p).slots[0].slots])
    return out


def nonblank_lines(e, st):
    """split a (symbolic) string on LF and drop lines that are empty after trimming whitespace (forks)"""
    lines = [[]]
    for ch in st.chars:
        if e.branch(s_eq(ch, 10)): lines.append([])
        else: lines[-1].append(ch)
    out = []
    for ln in lines:
        blank = True
        for ch in ln:
            if not e.branch(is_ws(e, ch)): blank = False; break
        if not blank: out.append(Str(ln))
    return out


def py_nonblank_lines(v):
    return [l for l in v.split('\n') if l.strip() != '']


def content_equal_cond(e, got, want):
    """got: [[(Str,Str)]] ; want: [[(chars, [accepted value chars...])]] -> (structure_ok: bool, cond)"""
    if len(got) != len(want): return False
    conds = []
    for gp, wp in zip(got, want):
        if len(gp) != len(wp): return False
        for (gk, gv), (wk, wvs) in zip(gp, wp):
            conds.append(veq(e, gk, Str(wk)))
            conds.append(b_or(*[veq(e, gv, Str(w)) for w in wvs]))
    return b_and(*conds)
