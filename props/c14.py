"""C14: lossy relations round-trip through text and convert faithfully to lossless."""
import z3
from mirsym.runner import Harness
from mirsym.values import *
from mirsym.models_core import veq
from mirsym.models_ext import version_parse
from .common import *
from .rel_common import *
from .c01 import classify_panic
from .c18 import src_fields

LR = 'lossy::relations::'


def mk_lossy(e, r):
    order = src_fields('debian-control/src/lossy/relations.rs', 'struct', 'Relation')
    vck = e.prog.enum_lookup('relations::VersionConstraint', 'control'); bpk = e.prog.enum_lookup('relations::BuildProfile', 'control')
    vals = {'name': Str(r['name']), 'archqual': SOME(Str(r['archqual'])) if r['archqual'] is not None else NONE(),
            'architectures': SOME(VecV([Str(a) for _, a in r['archs']])) if r['archs'] is not None else NONE(),
            'version': SOME(Agg('tuple', [EnumV(vck, OPNAME[r['version'][0]]), version_parse(e, Str(r['version'][1]))])) if r['version'] else NONE(),
            'profiles': VecV([VecV([EnumV(bpk, 'Disabled' if n else 'Enabled', [Str(p)]) for n, p in g]) for g in r['profiles']])}
    return Agg('Relation', [vals[k] for k in order])


CASES = {
    'parts':    {'entries': 1, 'alternatives': 1, 'archqual': True, 'archs': 2, 'negation': False, 'profile_groups': 1, 'profile_terms': 1, 'version_kinds': 2, 'ws_styles': 1},
    'profiles': {'entries': 1, 'alternatives': 1, 'profile_groups': 2, 'profile_terms': 2, 'version_kinds': 1, 'ws_styles': 1},
    'field':    {'entries': 2, 'alternatives': 2, 'version_kinds': 1, 'ws_styles': 1},
    'groups3':  {'entries': 1, 'alternatives': 1, 'profile_groups': 3, 'profile_terms': 1, 'no_version': True, 'ws_styles': 1},
}


class C14(Harness):
    id = 'C14'
    op = 'lossy_rel'
    crates = ('control',)
    fuel = 300000
    bounds = {'quick': CASES, 'thorough': dict(CASES, big={'entries': 2, 'alternatives': 2, 'archqual': True, 'archs': 2, 'negation': False, 'profile_groups': 1, 'profile_terms': 2, 'version_kinds': 4, 'ws_styles': 1, 'ident_chars': 2})}
    assumptions = ['lossy Relation values are assembled from components generated like C10 (identifier characters symbolic in [A-Za-z0-9.+~-], first alphanumeric; versions digit | digit:digit | digit~x | digit-digit); architectures are plain names (the lossy type has no negation)',
                   'every optional part present/absent, 0..2 architectures, 0..2 profile groups of 1..2 possibly negated terms (and 0..3 single-term groups); Relations of up to 2 entries x 2 alternatives']

    def cases(self, tier): return [{'name': k, 'cfg': v, 'order': i} for i, (k, v) in enumerate(self.bounds[tier].items())]

    def run(self, e, case):
        g = RelGen(e, case['cfg'])
        _, entries = g.field()
        entries = [en for en in entries if isinstance(en, list)]
        e.inputs['entries'] = [[{'name': Str(r['name']), 'archqual': Str(r['archqual']) if r['archqual'] is not None else None,
                                 'version': [r['version'][0], Str(r['version'][1])] if r['version'] else None,
                                 'archs': [Str(a) for _, a in r['archs']] if r['archs'] is not None else None,
                                 'profiles': [[[n, Str(p)] for n, p in grp] for grp in r['profiles']], 'features': r['features']} for r in en] for en in entries]
        vals = [[mk_lossy(e, r) for r in en] for en in entries]
        rels = Agg('Relations', [VecV([VecV(en) for en in vals])])
        checks = []
        text = e.call_path('control', '<%sRelations as ToString>::to_string' % LR, [Ref([rels], [0])])
        back = e.call_path('control', '<%sRelations as FromStr>::from_str' % LR, [text])
        pred = {'text': text, 'back_ok': back.variant == 'Ok'}
        checks.append(('lossy reader accepts its own output', back.variant == 'Ok'))
        if back.variant == 'Ok': checks.append(('lossy round trip == original value', veq(e, back.slots[0], rels)))
        r = e.call_path('control', RL + 'Relations::parse_relaxed', [text, False])
        checks.append(('lossless reader accepts the lossy text', len(e.deref(r.slots[1]).slots) == 0))
        got, _ = read_lossless_field(e, r.slots[0])
        for en in entries:
            for x in en: x['archs'] = [(False, a) for _, a in x['archs']] if x['archs'] is not None else None
        checks.append(('lossless reader reads the same structure', structure_cond(e, got, entries, True)))
        for en, vs in zip(entries, vals):
            for x, v in zip(en, vs):
                t = e.call_path('control', '<%sRelation as ToString>::to_string' % LR, [Ref([v], [0])])
                sb = e.call_path('control', '<%sRelation as FromStr>::from_str' % LR, [t])
                checks.append(('single relation round trip', sb.variant == 'Ok' and veq(e, sb.slots[0], v)))
                from mirsym.models_core import clone_val
                l = e.call_path('control', '<%sRelation as From<crate::lossy::Relation>>::from' % RL, [clone_val(e, v)])
                lt = call_to_string(e, 'control', RL + 'Relation', l)
                checks.append(('lossless form prints the same text as the lossy one', veq(e, lt, t)))
                b = e.call_path('control', '<lossy::relations::Relation as From<%sRelation>>::from' % RL, [l])
                checks.append(('lossy -> lossless -> lossy returns the original value', veq(e, b, v)))
            from mirsym.models_core import clone_val
            en_l = e.call_path('control', '<%sEntry as From<Vec<crate::lossy::Relation>>>::from' % RL, [VecV([clone_val(e, v) for v in vs])])
            bv = e.call_path('control', '<Vec<crate::lossy::Relation> as From<%sEntry>>::from' % RL, [en_l])
            checks.append(('Entry <-> Vec<lossy::Relation>', veq(e, bv, VecV(vs))))
        return {'pred': pred, 'checks': checks}

    def oracle(self, case, w, nat):
        if nat.get('timeout'): return [('hang', 'native run does not terminate on %r' % w)]
        if 'crash' in nat: return [('crash', nat['crash'])]
        if 'panic' in nat: return [('panic:' + classify_panic(nat['panic']), nat['panic'][:200])]
        v = []
        flat = [r for en in w['entries'] for r in en]
        def tag(rs):
            f = set()
            for r in rs:
                if r['archs'] is not None: f.add('archs' if r['archs'] else 'empty-archs')
                if any(len(g) > 1 for g in r['profiles']): f.add('multi-term-group')
                elif r['profiles']: f.add('profiles')
                if r['archqual'] is not None: f.add('archqual')
                for x in r['features']:
                    if x.startswith('version-'): f.add(x)
            return ','.join(sorted(f)) or 'plain'
        T = tag(flat); text = nat['text']
        b = nat['back']
        if 'panic' in b: v.append(('lossy-roundtrip:panic:' + T, 'lossy reader panics on its own output %r' % text))
        elif not b['ok']: v.append(('lossy-roundtrip:rejected:' + T, 'lossy reader rejects its own output %r: %s' % (text, b.get('err', '')[:80])))
        elif not b['eq']: v.append(('lossy-roundtrip:differs:' + T, 'lossy value prints %r which reads back as %r' % (text, b['text2'])))
        l = nat['lossless']
        if 'panic' in l or 'panic' in l.get('structure', {}): v.append(('lossless-read:panic:' + T, 'lossless reader/accessor panics on %r' % text))
        elif l['nerrors']: v.append(('lossless-read:rejected:' + T, 'lossless reader reports errors on lossy output %r' % text))
        else:
            from .c10 import diff_structure
            want = [[dict(r, archs=[[False, a] for a in r['archs']] if r['archs'] is not None else None) for r in en] for en in w['entries']]
            for d in diff_structure(l['structure']['entries'], want): v.append(('lossless-read:wrong-%s:%s' % (d, T), 'lossless reader reads lossy output %r as %r' % (text, l['structure']['entries'])))
        for r, pr in zip(flat, nat['relations']):
            t1 = tag([r]); s_ = pr['single']; c = pr['conv']
            if 'panic' in s_ or not s_.get('ok') or not s_.get('eq'): v.append(('single-roundtrip:' + t1, 'lossy Relation %r prints %r which does not read back equal: %r' % (r, pr['text'], s_)))
            if 'panic' in c: v.append(('conversion:panic:%s:%s' % (classify_panic(c['panic']), t1), 'lossy -> lossless conversion of %r panics: %s' % (r, c['panic'][:100])))
            else:
                if c['lossless_text'] != pr['text']: v.append(('conversion:text-differs:' + t1, 'lossless form of %r prints %r, lossy prints %r' % (r, c['lossless_text'], pr['text'])))
                if not c['back_eq']: v.append(('conversion:back-differs:' + t1, 'lossy -> lossless -> lossy of %r gives %r' % (r, c['back_text'])))
        for en, ec in zip(w['entries'], nat['entries']):
            if 'panic' in ec: v.append(('entry-conversion:panic:%s:%s' % (classify_panic(ec['panic']), tag(en)), 'Entry::from(Vec<lossy::Relation>) panics for %r: %s' % (en, ec['panic'][:100])))
            elif not ec['back_eq']: v.append(('entry-conversion:differs:' + tag(en), 'Entry <-> Vec<lossy::Relation> does not round-trip for %r (prints %r)' % (en, ec['text'])))
        # one record per class
        seen = set(); out = []
        for cls, msg in v:
            if cls not in seen: seen.add(cls); out.append((cls, msg))
        return out

    def compare(self, case, pred, nat):
        if 'panic' in nat: return []
        if pred.get('text') != nat.get('text'): return ['text %r vs %r' % (pred.get('text'), nat.get('text'))]
        return []

    def coverage_keys(self, case, w, nat): return ['case=' + case['name']]


HARNESS = C14()
