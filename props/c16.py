"""C16: derived struct/paragraph conversions round-trip and update only own fields."""
import re, json, os
import z3
from mirsym.runner import Harness
from mirsym.values import *
from mirsym.models_core import veq, clone_val
from mirsym.models_iter import getiter, drain
from mirsym import replay as replay_mod
from .common import *
from .deb822_common import *
from .c01 import classify_panic
from . import typed_common as tc

FOREIGN = 'X-Foreign'
PTY = {'lossy': 'deb822_lossless::lossy::Paragraph', 'lossless': 'deb822_lossless::Paragraph'}


def struct_id(key): return '%s::%s::%s' % key
def mir_type(key): return (key[1] + '::' if key[1] else '') + key[2]


def is_stringy(ty):
    t = ty.replace(' ', '')
    return t in ('String', 'Option<String>')


def alnum_tok(e, name, n):
    k = e.choose(name + 'len', n) + 1
    return Str([e.fresh_ascii(name, lambda c: z3.Or(z3.And(c >= 97, c <= 122), z3.And(c >= 48, c <= 57))) for _ in range(k)])


def build_para(e, backend, pairs):
    vec = VecV([Agg('tuple', [mkstr(k) if isinstance(k, str) else k, v if isinstance(v, Str) else mkstr(v)]) for k, v in pairs])
    if backend == 'lossy': return e.call_path('deb822', '<lossy::Paragraph as From<Vec<(String, String)>>>::from', [vec])
    return e.call_path('deb822', '<lossless::Paragraph as From<Vec<(String, String)>>>::from', [vec])


def items_of(e, backend, p):
    if backend == 'lossy': return [(f.slots[0], f.slots[1]) for f in e.deref(p).slots[0].slots]
    return read_items(e, p)


class C16(Harness):
    id = 'C16'
    op = 'derive'
    crates = ('deb822', 'control', 'copyright', 'dep3', 'aptsources')
    fuel = 400000
    bounds = {'quick': {'token_chars': 1}, 'thorough': {'token_chars': 2}}
    assumptions = ['every struct in the workspace deriving FromDeb822/ToDeb822 (field tables read from the current source); test structs inside #[cfg(test)] modules are not part of the library MIR',
                   'String / Option<String> fields take symbolic alphanumeric tokens (the focus field also with a trailing blank); fields of other types take a value accepted by the real code (found by native probing of a small pool) - the conversion plumbing is decided symbolically, those codecs on the probed value',
                   'one case per field: that field present/absent in the value and in the prior paragraph (solver choices), other optional fields absent; plus one case with every field present',
                   'prior paragraph for update_paragraph: one foreign field before the own fields, optionally a second foreign field spelled like the focus key in lower case; on the lossless back-end additionally built from text with a comment and unusual spacing that must survive',
                   'error clause: each mandatory field removed in turn; each non-string field given a symbolic 1-character value']
    oracle_leniency = ['error messages are only required to contain the field name']

    def cases(self, tier):
        table = tc.deriving_structs()
        rp = replay_mod.Replay(replay_mod.build())
        cs = []
        for key, st in sorted(table.items()):
            if not (st['from'] and st['to']): continue
            fields = [f for f in st['fields'] if f['field']]
            sid = struct_id(key)
            # values accepted by the real reader for every field (probing)
            good = {}
            mand = [f for f in fields if not f['optional']]
            base = {f['field']: tc.POOL[0] for f in mand}
            def ok(pairs): return rp.call({'op': 'derive', 'struct': sid, 'backend': 'lossy', 'pairs': pairs, 'prior': []})
            for _ in range(60):
                r = ok([[f['field'], base[f['field']]] for f in mand])
                if r.get('ok') or 'error' in r: break
                hit = next((f for f in mand if re.search(r'\b' + re.escape(f['field']) + r'\b', r.get('err', ''))), None)
                if hit is None: break
                i = tc.POOL.index(base[hit['field']]) + 1
                if i >= len(tc.POOL): break
                base[hit['field']] = tc.POOL[i]
            if not r.get('ok'): continue
            for f in fields:
                if not f['optional']: good[f['field']] = base[f['field']]; continue
                for v in tc.POOL:
                    r2 = ok([[g['field'], base[g['field']]] for g in mand] + [[f['field'], v]])
                    if r2.get('ok'): good[f['field']] = v; break
            desc = [{'field': f['field'], 'optional': f['optional'], 'stringy': is_stringy(f['ty']), 'good': good.get(f['field'])} for f in fields if f['field'] in good]
            common = {'struct': sid, 'key': list(key), 'fields': desc, 'n': self.bounds[tier]['token_chars']}
            for f in desc: cs.append(dict(common, fam='field', focus=f['field'], order=1))
            cs.append(dict(common, fam='all', focus=None, order=2))
            for f in desc:
                if not f['optional']: cs.append(dict(common, fam='missing', focus=f['field'], order=0))
                if not f['stringy']: cs.append(dict(common, fam='badvalue', focus=f['field'], order=0))
        rp.stop()
        return cs

    def run(self, e, case):
        key = tuple(case['key']); ty = mir_type(key); crate = key[0]
        fields = case['fields']; fam = case['fam']; focus = case['focus']
        def val_for(f):
            if f['stringy']:
                t = alnum_tok(e, 'v', case['n'])
                # a value may end in a blank: it is content (C03) and must survive the conversion
                return Str(list(t.chars) + [32]) if (f['field'] == focus and e.choose('tsp', 2)) else t
            return mkstr(f['good'])
        present = {}
        for f in fields:
            if not f['optional']: present[f['field']] = True
            elif fam == 'all': present[f['field']] = True
            elif f['field'] == focus and fam in ('field', 'badvalue'): present[f['field']] = True if fam == 'badvalue' else bool(e.choose('present', 2))
            else: present[f['field']] = False
        if fam == 'missing': present[focus] = False
        pairs = []
        for f in fields:
            if not present[f['field']]: continue
            if fam == 'badvalue' and f['field'] == focus:
                c = e.fresh_char('bad'); e.assume(z3.And(c != 10, c != 13, c != 32, c != 9)); v = Str([c])
            else: v = val_for(f)
            pairs.append((f['field'], v))
        # prior paragraph: a foreign field first, then (solver choice) the own focus field with an old value
        prior = [(FOREIGN, mkstr('f'))]
        # a second foreign field spelled like the focus key in another letter case: not owned by the struct (names are case-sensitive)
        if fam == 'field' and focus and focus.lower() != focus and e.choose('casevariant', 2): prior.append((focus.lower(), mkstr('legacy')))
        nforeign = len(prior)
        if fam in ('field', 'all'):
            for f in fields:
                inprior = (fam == 'all') or (f['field'] == focus and bool(e.choose('inprior', 2))) or (not f['optional'] and bool(e.choose('mandprior', 2)) if f['field'] == focus else False)
                if inprior: prior.append((f['field'], mkstr(f['good'])))
        HEAD = 'X-Foreign:   f\n# keep me\n'
        prior_text = HEAD + ''.join('%s: %s\n' % (k, v.py()) for k, v in prior[1:])
        e.inputs.update(struct=case['struct'], pairs=[[k, v] for k, v in pairs], prior=[[k, v] for k, v in prior], fam=fam, focus=focus, prior_text=prior_text)
        checks = []; pred = {}
        results = {}
        for backend in ('lossy', 'lossless'):
            P = PTY[backend]
            p = build_para(e, backend, pairs)
            r = e.call_path(crate, '<%s as FromDeb822Paragraph<%s>>::from_paragraph' % (ty, P), [Ref([p], [0])])
            pred[backend + '_ok'] = r.variant == 'Ok'
            if fam == 'missing':
                checks.append(('%s: a missing mandatory field is an error' % backend, r.variant == 'Err'))
                if r.variant == 'Err': checks.append(('%s: the error names the field' % backend, contains(e, r.slots[0], focus)))
                continue
            if r.variant != 'Ok':
                if fam == 'badvalue': checks.append(('%s: an unparsable value gives an error naming the field' % backend, contains(e, r.slots[0], focus)))
                else: checks.append(('%s: a paragraph with valid fields converts' % backend, False))
                results[backend] = None
                continue
            x = r.slots[0]
            p2 = e.call_path(crate, '<%s as ToDeb822Paragraph<%s>>::to_paragraph' % (ty, P), [Ref([x], [0])])
            it2 = items_of(e, backend, p2)
            results[backend] = it2
            order = [f['field'] for f in fields if present[f['field']]]
            checks.append(('%s: to_paragraph lists the present fields in declaration order under their configured names' % backend,
                           len(it2) == len(order) and b_and(*[veq(e, k, mkstr(n)) for (k, _), n in zip(it2, order)])))
            for (k, v), (n, want) in zip(it2, pairs):
                f = next(g for g in fields if g['field'] == n)
                if f['stringy'] and len(it2) == len(pairs): checks.append(('%s: string field %s written verbatim' % (backend, n), veq(e, v, want)))
            back = e.call_path(crate, '<%s as FromDeb822Paragraph<%s>>::from_paragraph' % (ty, P), [Ref([p2], [0])])
            checks.append(('%s: from_paragraph(to_paragraph(x)) == x' % backend, back.variant == 'Ok' and veq(e, back.slots[0], x)))
            if fam == 'badvalue': continue
            p3 = build_para(e, backend, prior)
            e.call_path(crate, '<%s as ToDeb822Paragraph<%s>>::update_paragraph' % (ty, P), [Ref([x], [0]), Ref([p3], [0])])
            it3 = items_of(e, backend, p3)
            checks.append(('%s: update leaves the foreign fields first and unchanged' % backend, len(it3) >= nforeign and b_and(*[b_and(veq(e, it3[i][0], mkstr(prior[i][0])), veq(e, it3[i][1], prior[i][1])) for i in range(nforeign)])))
            own3 = it3[nforeign:]
            names3 = [k for k, _ in own3]
            checks.append(('%s: after update exactly the present own fields exist (absent options removed)' % backend,
                           len(own3) == len(order) and b_and(*[b_or(*[veq(e, k, mkstr(n)) for k in names3]) for n in order])))
            re3 = e.call_path(crate, '<%s as FromDeb822Paragraph<%s>>::from_paragraph' % (ty, P), [Ref([p3], [0])])
            checks.append(('%s: the updated paragraph reads back as x' % backend, re3.variant == 'Ok' and veq(e, re3.slots[0], x)))
            if backend == 'lossless':
                p4 = e.call_path('deb822', '<lossless::Paragraph as FromStr>::from_str', [mkstr(prior_text)])
                if p4.variant == 'Ok':
                    e.call_path(crate, '<%s as ToDeb822Paragraph<%s>>::update_paragraph' % (ty, P), [Ref([x], [0]), Ref([p4.slots[0]], [0])])
                    t4 = call_to_string(e, 'deb822', 'lossless::Paragraph', p4.slots[0])
                    checks.append(('lossless: comments and formatting of untouched lines survive the update', len(t4.chars) >= len(HEAD) and veq(e, Str(t4.chars[:len(HEAD)]), mkstr(HEAD))))
        if results.get('lossy') is not None and results.get('lossless') is not None:
            a, b = results['lossy'], results['lossless']
            checks.append(('lossy and lossless back-ends produce the same pairs', len(a) == len(b) and b_and(*[b_and(veq(e, k1, k2), veq(e, v1, v2)) for (k1, v1), (k2, v2) in zip(a, b)])))
        return {'pred': pred, 'checks': checks}

    def request(self, case, w):
        return {'op': 'derive_both', 'struct': w['struct'], 'pairs': w['pairs'], 'prior': w['prior'], 'prior_text': w.get('prior_text')}

    def oracle(self, case, w, nat):
        if nat.get('timeout'): return [('hang', 'conversion does not terminate: %r' % w)]
        if 'crash' in nat: return [('crash', nat['crash'])]
        if 'error' in nat: return [('harness-error', nat['error'])]
        v = []; fam = w['fam']; focus = w['focus']; S = w['struct'].split('::')[-1]
        pairs = w['pairs']; order = [k for k, _ in pairs]
        fields = {f['field']: f for f in case['fields']}
        res = {}
        for backend in ('lossy', 'lossless'):
            r = nat[backend]
            tag = '%s:%s:%s' % (S, focus or 'all', backend)
            if 'panic' in r: v.append(('panic:%s:%s' % (classify_panic(r['panic']), tag), '%s conversion panics: %s on %r' % (backend, r['panic'][:120], pairs))); continue
            if fam == 'missing':
                if r['ok']: v.append(('missing-accepted:' + tag, 'paragraph %r without mandatory %s converts' % (pairs, focus)))
                elif focus not in r['err']: v.append(('error-unnamed:' + tag, 'error %r does not name the missing field %s' % (r['err'], focus)))
                continue
            if not r['ok']:
                if fam == 'badvalue':
                    if focus not in r['err']: v.append(('error-unnamed:' + tag, 'error %r does not name the field %s' % (r['err'], focus)))
                else: v.append(('valid-rejected:' + tag, 'paragraph %r with valid fields is rejected: %s' % (pairs, r['err'])))
                continue
            tp = r['to_pairs']; res[backend] = tp
            if [k for k, _ in tp] != order: v.append(('order-or-names:' + tag, 'to_paragraph gives fields %r, expected %r' % ([k for k, _ in tp], order)))
            else:
                for (k, val), (_, want) in zip(tp, pairs):
                    if fields[k]['stringy'] and val != want: v.append(('string-altered:' + tag, 'field %s written as %r, value was %r' % (k, val, want)))
            b = r['back']
            if 'panic' in b or not b.get('ok') or not b.get('eq'): v.append(('roundtrip:%s:%s' % (field_kind(fields, tp, b), tag), 'from_paragraph(to_paragraph(x)) differs for %r: to_paragraph gives %r, reading it back: %r' % (pairs, tp, b)))
            if fam == 'badvalue': continue
            u = r['update']
            if 'panic' in u: v.append(('update-panic:%s:%s' % (classify_panic(u['panic']), tag), 'update_paragraph panics: %s' % u['panic'][:120])); continue
            up = u['pairs']
            own_keys = set(fields)
            foreign = [list(kv) for kv in w['prior'] if kv[0] not in own_keys]
            if up[:len(foreign)] != foreign: v.append(('foreign-changed:' + tag, 'update changed a field the struct does not own: prior %r, after %r' % (w['prior'], up)))
            if sorted(k for k, _ in up[len(foreign):]) != sorted(order): v.append(('update-fields:' + tag, 'after update the paragraph has %r, the value has %r' % ([k for k, _ in up], order)))
            ut = r.get('update_text')
            if backend == 'lossless' and ut:
                if 'panic' in ut: v.append(('update-text-panic:' + tag, 'update of a parsed paragraph panics: %s' % ut['panic'][:100]))
                elif not ut['text'].startswith('X-Foreign:   f\n# keep me\n'): v.append(('formatting-lost:' + tag, 'update rewrote untouched lines: %r -> %r' % (w.get('prior_text'), ut['text'])))
            rr = u['reread']
            if not rr.get('ok') or not rr.get('eq'): v.append(('update-reread:' + tag, 'updated paragraph %r does not read back as the value (%r)' % (up, rr)))
        if 'lossy' in res and 'lossless' in res and res['lossy'] != res['lossless']: v.append(('backends-differ:%s:%s' % (S, focus or 'all'), 'lossy %r vs lossless %r' % (res['lossy'], res['lossless'])))
        seen = set(); out = []
        for c, m in v:
            if c not in seen: seen.add(c); out.append((c, m))
        return out

    def compare(self, case, pred, nat):
        d = []
        for b in ('lossy', 'lossless'):
            if b in nat and 'panic' not in nat[b] and (b + '_ok') in pred and pred[b + '_ok'] != nat[b]['ok']: d.append('%s ok %r vs %r' % (b, pred[b + '_ok'], nat[b]['ok']))
        return d

    def coverage_keys(self, case, w, nat): return ['struct=' + w['struct'], 'family=' + w['fam']]


def field_kind(fields, tp, back):
    return 'reparse-fails' if not back.get('ok') else 'differs'


def contains(e, msg, name):
    """the error message (Str, possibly partly symbolic) contains the literal field name"""
    m = e.deref(msg)
    if not isinstance(m, Str): return True
    n = [ord(c) for c in name]; ch = list(m.chars)
    for i in range(len(ch) - len(n) + 1):
        if all(isinstance(c, int) and c == x for c, x in zip(ch[i:i+len(n)], n)): return True
    return False


HARNESS = C16()
