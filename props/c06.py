"""C06: lossy and lossless deb822 readers agree on content."""
import z3
from mirsym.runner import Harness
from mirsym.values import *
from mirsym.models_core import veq
from .common import *
from .deb822_common import *
from .c01 import classify_panic


def lines_cond(e, a, b):
    la = nonblank_lines(e, a); lb = nonblank_lines(e, b)
    if len(la) != len(lb): return False
    return b_and(*[veq(e, x, y) for x, y in zip(la, lb)])


def content_agree(e, A, B):
    if len(A) != len(B): return False
    conds = []
    for pa, pb in zip(A, B):
        if len(pa) != len(pb): return False
        for (ka, va), (kb, vb) in zip(pa, pb):
            conds.append(veq(e, ka, kb))
            c = lines_cond(e, va, vb)
            if c is False: return False
            conds.append(c)
    return b_and(*conds)


class C06(Harness):
    id = 'C06'
    op = 'deb822'
    fuel = 60000
    bounds = {'quick': {'free_text_max_chars': 4, 'S1_lines': 3, 'S2_lines': 4}, 'thorough': {'free_text_max_chars': 6, 'S1_lines': 4, 'S2_lines': 6, 'S3_lines': 2}}
    assumptions = ['free text: every string of 0..N Unicode scalar values; agreement is required only when both readers return Ok',
                   'joint acceptance: structured well-formed documents (shapes S1/S2/S3 as in C03, same domain restrictions)',
                   'value comparison: the sequence of value lines that are non-empty after trimming whitespace',
                   'additionally the S1 skeletons with continuation lines allowed to start with "#" (both readers treat such a line as a comment): agreement is decided whenever both accept',
                   'and the S2 skeletons with continuation lines that may consist of whitespace only (a blank value line for both readers): agreement is decided whenever both accept',
                   'and the S2 skeletons with every line ending chosen among LF, a bare CR and CR LF (so an empty line may be a lone CR): agreement is decided whenever both accept']
    oracle_leniency = ['blank value lines (empty or whitespace only) are ignored on both sides, as the statement compares non-blank value lines']

    def cases(self, tier):
        b = self.bounds[tier]
        cs = [{'shape': 'free', 'n': n, 'order': n} for n in range(b['free_text_max_chars'] + 1)]
        cs.append({'shape': 'S1', 'L': b['S1_lines'], 'order': 4})
        cs.append({'shape': 'S2', 'L': b['S2_lines'], 'order': 5})
        cs.append({'shape': 'S1', 'L': b['S1_lines'], 'cont_hash': True, 'order': 4})
        cs.append({'shape': 'S2', 'L': b['S1_lines'], 'blank_cont': True, 'order': 4})
        cs.append({'shape': 'S2', 'L': b['S1_lines'], 'eol_free': True, 'order': 5})
        if 'S3_lines' in b: cs.append({'shape': 'S3', 'L': b['S3_lines'], 'w': 2, 'order': 6})
        return cs

    def run(self, e, case):
        wf = case['shape'] != 'free'
        if wf:
            text, paras, kinds = gen_doc(e, case['shape'], case['L'], w=case.get('w', 2), cont_hash=case.get('cont_hash', False), blank_cont=case.get('blank_cont', False), eol_free=case.get('eol_free', False))
            s = Str(text); e.inputs['kinds'] = kinds
            if case.get('cont_hash') or case.get('blank_cont') or case.get('eol_free'): wf = False     # indented '#' lines are outside C03's domain: agreement is required, acceptance is not
        else:
            s = sym_text(e, case['n'])
        e.inputs['s'] = s; e.inputs['wf'] = wf
        checks = []
        a = e.call_path('deb822', '<lossless::Deb822 as FromStr>::from_str', [s])
        b = e.call_path('deb822', '<lossy::Deb822 as FromStr>::from_str', [s])
        pred = {'lossless_ok': a.variant == 'Ok', 'lossy_ok': b.variant == 'Ok'}
        if wf:
            checks.append(('lossless reader accepts the well-formed document', a.variant == 'Ok'))
            checks.append(('lossy reader accepts the well-formed document', b.variant == 'Ok'))
        if a.variant == 'Ok' and b.variant == 'Ok':
            A = read_lossless(e, a.slots[0]); B = read_lossy(e, b.slots[0])
            pred['lossless'] = [[[k, v] for k, v in p] for p in A]; pred['lossy'] = [[[k, v] for k, v in p] for p in B]
            checks.append(('both readers report the same paragraphs, names and non-blank value lines', content_agree(e, A, B)))
        return {'pred': pred, 'checks': checks}

    def oracle(self, case, w, nat):
        s = w['s']; v = []
        if nat.get('timeout'): return [('hang', 'native run exceeded the watchdog on %r' % s)]
        if 'crash' in nat: return [('crash', nat['crash'])]
        a = nat['strict']; b = nat['lossy']
        if w['wf']:
            for name, r in (('lossless', a), ('lossy', b)):
                if 'panic' in r: v.append(('panic-wellformed:%s:%s' % (name, classify_panic(r['panic'])), '%s reader panics on well-formed %r: %s' % (name, s, r['panic'][:160])))
                elif not r['ok']: v.append(('rejects-wellformed:%s:%s' % (name, wf_class(w)), '%s reader rejects well-formed %r: %s' % (name, s, r.get('err', '')[:100])))
        if 'panic' in a or 'panic' in b: return v     # totality is C02's subject
        if a['ok'] and b['ok']:
            A = [[(k, py_nonblank_lines(x)) for k, x in p] for p in a['paras']]
            B = [[(k, py_nonblank_lines(x)) for k, x in p] for p in b['paras']]
            if A != B: v.append(('disagree:' + disagree_class(s, A, B), 'readers disagree on %r: lossless %r, lossy %r' % (s, a['paras'], b['paras'])))
        return v

    def compare(self, case, pred, nat):
        a = nat['strict']; b = nat['lossy']; d = []
        if 'panic' in a or 'panic' in b: return ['native panics']
        if pred['lossless_ok'] != a['ok']: d.append('lossless ok %r vs %r' % (pred['lossless_ok'], a['ok']))
        if pred['lossy_ok'] != b['ok']: d.append('lossy ok %r vs %r' % (pred['lossy_ok'], b['ok']))
        if not d and 'lossless' in pred:
            if pred['lossless'] != a['paras']: d.append('lossless paras %r vs %r' % (pred['lossless'], a['paras']))
            if pred['lossy'] != b['paras']: d.append('lossy paras %r vs %r' % (pred['lossy'], b['paras']))
        return d

    def nontrivial(self, case, w): return len(w['s']) >= 1
    def coverage_keys(self, case, w, nat):
        out = ['shape=' + case['shape']]
        if 'panic' not in nat.get('strict', {}) and 'panic' not in nat.get('lossy', {}) and 'strict' in nat:
            out.append('lossless_ok=%s,lossy_ok=%s' % (nat['strict']['ok'], nat['lossy']['ok']))
        return out


def wf_class(w):
    kinds = w.get('kinds') or []
    if 'comment' in kinds: return 'with-comment'
    if 'cont' in kinds: return 'with-continuation'
    return 'plain'


def disagree_class(s, A, B):
    if '\r' in s: return 'cr'
    if '#' in s: return 'comment'
    if len(A) != len(B): return 'paragraph-count'
    return 'content'


HARNESS = C06()
