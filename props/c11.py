"""C11: editing relationship fields keeps them well-formed and matches a list model."""
import re, copy
import z3
from mirsym.runner import Harness
from mirsym.values import *
from mirsym.models_core import veq
from mirsym.models_ext import version_parse
from .common import *
from .rel_common import *
from .c01 import classify_panic
from . import c10

BADSEP = re.compile(r',\s*,|^\s*,|,\s*$|\|\s*\||\|\s*,|,\s*\||^\s*\||\|\s*$')
ROOT_OPS = ['push', 'insert', 'replace', 'remove_entry']
ENTRY_OPS = ['entry_push', 'entry_replace', 'entry_remove_relation', 'entry_remove']
REL_OPS = ['set_version', 'unset_version', 'drop_constraint', 'set_archqual', 'set_architectures', 'add_profile', 'relation_remove']

CASES = {
    'root-ops':  {'ops': ROOT_OPS, 'history': 1, 'pad': True, 'cfg': {'entries': 2, 'alternatives': 1, 'no_version': True, 'ws_styles': 4}, 'allow_empty': True},
    'entry-ops': {'ops': ENTRY_OPS, 'history': 1, 'pad': True, 'cfg': {'entries': 2, 'alternatives': 2, 'no_version': True, 'ws_styles': 4}},
    'rel-ops':   {'ops': REL_OPS, 'history': 1, 'cfg': {'entries': 1, 'alternatives': 2, 'version_kinds': 1, 'ws_styles': 2}},
    'rel-ops-rich': {'ops': REL_OPS, 'history': 1, 'cfg': {'entries': 1, 'alternatives': 1, 'archqual': True, 'archqual_space': True, 'archs': 1, 'negation': False, 'profile_groups': 1, 'profile_terms': 1, 'version_kinds': 1, 'ws_styles': 2}},
    'pre-comma': {'ops': ['remove_entry', 'entry_remove', 'insert', 'replace'], 'history': 1, 'cfg': {'entries': 3, 'alternatives': 1, 'no_version': True, 'pre_comma': True, 'ws_styles': 2}},
    'substvar':  {'ops': ROOT_OPS + ['entry_remove'], 'history': 1, 'cfg': {'entries': 2, 'alternatives': 1, 'no_version': True, 'substvars': True, 'ws_styles': 1}},
    'mixed':     {'ops': ROOT_OPS + ENTRY_OPS + ['set_version', 'set_architectures', 'add_profile', 'relation_remove'], 'history': 2, 'cfg': {'entries': 1, 'alternatives': 1, 'no_version': True, 'ws_styles': 1}},
    'built-entry': {'ops': ['push2', 'entry_remove_relation', 'relation_remove', 'entry_push', 'entry_replace'], 'history': 2, 'cfg': {'entries': 1, 'alternatives': 1, 'no_version': True, 'ws_styles': 1}, 'allow_empty': True},
    'sequence':  {'ops': ['push', 'insert', 'remove_entry', 'entry_push', 'set_version', 'set_architectures', 'add_profile'], 'history': 2, 'cfg': {'entries': 1, 'alternatives': 1, 'no_version': True, 'ws_styles': 1}, 'allow_empty': True},
}


class C11(Harness):
    id = 'C11'
    op = 'rel_edit'
    crates = ('control',)
    fuel = 400000
    bounds = {'quick': CASES, 'thorough': dict(CASES, seq3=dict(CASES['sequence'], history=3), mixed2={'ops': ROOT_OPS + ENTRY_OPS + REL_OPS, 'history': 2, 'cfg': {'entries': 2, 'alternatives': 2, 'version_kinds': 1, 'ws_styles': 2}})}
    assumptions = ['start states: the empty field or well-formed fields generated as in C10 (no empty entries / trailing comma, so that separator hygiene is attributable to the edits)',
                   'operations with in-range indices (insert: 0..=len); new relations are built by parsing, by Relation::new and by the builder, each plain or versioned; in the one-step families a parsed operand also comes with a trailing space',
                   'after every step: the root prints to text that parses without error to the list-of-lists model, has no doubled/dangling/fused separators, and substitution variables keep their text']

    def cases(self, tier): return [dict(v, name=k, order=i) for i, (k, v) in enumerate(self.bounds[tier].items())]

    # ---- operand construction through the public constructors ------------------------------------------
    def operand(self, e, g):
        how = ['parse', 'new', 'builder'][e.choose('how', 3)]
        name = g.ident('o'); ver = None
        if e.choose('over', 2): ver = ('>=', [e.fresh_ascii('ov', digit)])
        vck = e.prog.enum_lookup('relations::VersionConstraint', 'control')
        vopt = SOME(Agg('tuple', [EnumV(vck, 'GreaterThanEqual'), version_parse(e, Str(ver[1]))])) if ver else NONE()
        if how == 'parse':
            pad = e.choose('opad', 2) if self.case.get('pad') else 0
            t = list(name) + ((o(' (>= ') + ver[1] + [41]) if ver else []) + ([32] if pad else [])
            r = e.call_path('control', '<%sRelation as FromStr>::from_str' % RL, [Str(t)])
            if r.variant != 'Ok': raise Unsupported('operand text rejected')
            rel = r.slots[0]
        elif how == 'new':
            rel = e.call_path('control', RL + 'Relation::new', [Str(name), vopt])
        else:
            b = e.call_path('control', RL + 'Relation::build', [Str(name)])
            if ver: b = e.call_path('control', RL + 'RelationBuilder::version_constraint', [b, EnumV(vck, 'GreaterThanEqual'), version_parse(e, Str(ver[1]))])
            rel = e.call_path('control', RL + 'RelationBuilder::build', [b])
        spec = {'name': name, 'archqual': None, 'version': ver, 'archs': None, 'profiles': [], 'features': []}
        desc = {'how': how, 'name': Str(name), 'version': [ver[0], Str(ver[1])] if ver else None, 'pad': bool(how == 'parse' and pad)}
        return rel, spec, desc

    def run(self, e, case):
        self.case = case
        g = RelGen(e, case['cfg'])
        if case.get('allow_empty') and e.choose('emptyfield', 2): text, entries = [], []
        else: text, entries = g.field()
        s = Str(text)
        model = [copy.copy(en) for en in entries if isinstance(en, list)]
        svs = [en[1] for en in entries if isinstance(en, tuple)]
        e.inputs.update(s=s, ops=[], spec=spec_json(entries), substvars=[Str(x) for x in svs])
        r = e.call_path('control', RL + 'Relations::parse_relaxed', [s, True])
        if len(e.deref(r.slots[1]).slots): return {'pred': {}, 'checks': []}
        root = r.slots[0]; rref = Ref([root], [0])
        checks = []; texts = []
        def entry(i):
            x = e.call_path('control', RL + 'Relations::get_entry', [rref, i])
            if x.variant != 'Some': raise Panic('get_entry(%d) is None' % i)
            return x.slots[0]
        def relation(i, j):
            x = e.call_path('control', RL + 'Entry::get_relation', [Ref([entry(i)], [0]), j])
            if x.variant != 'Some': raise Panic('get_relation(%d) is None' % j)
            return x.slots[0]
        for h in range(e.choose('H', case['history']) + 1):
            avail = [o_ for o_ in case['ops'] if model or o_ in ('push', 'push2', 'insert')]
            op = avail[e.choose('op', len(avail))]
            rec = {'op': op}
            if op in ('push', 'push2', 'insert', 'replace', 'entry_push', 'entry_replace'):
                rel, spec, desc = self.operand(e, g); rec['operand'] = desc
            if op == 'push2':
                rel2, spec2, desc2 = self.operand(e, g); rec['operand2'] = desc2
            if op == 'insert': i = e.choose('i', len(model) + 1)
            elif op not in ('push', 'push2'): i = e.choose('i', len(model))
            else: i = 0
            rec['i'] = i
            j = 0
            if op in ('entry_replace', 'entry_remove_relation') or op in REL_OPS: j = e.choose('j', len(model[i])); rec['j'] = j
            val = g.ident('x') if op in ('set_archqual', 'set_architectures', 'add_profile') else [e.fresh_ascii('nv', digit)]
            rec['value'] = Str(val)
            e.inputs['ops'].append(rec)
            vck = e.prog.enum_lookup('relations::VersionConstraint', 'control'); bpk = e.prog.enum_lookup('relations::BuildProfile', 'control')
            mk_entry = lambda rel_: e.call_path('control', '<%sEntry as From<%sRelation>>::from' % (RL, RL), [rel_])
            if op == 'push': e.call_path('control', RL + 'Relations::push', [rref, mk_entry(rel)]); model.append([spec])
            elif op == 'push2':
                en2 = e.call_path('control', '<%sEntry as From<Vec<%sRelation>>>::from' % (RL, RL), [VecV([rel, rel2])])
                e.call_path('control', RL + 'Relations::push', [rref, en2]); model.append([spec, spec2])
            elif op == 'insert': e.call_path('control', RL + 'Relations::insert', [rref, i, mk_entry(rel)]); model.insert(i, [spec])
            elif op == 'replace': e.call_path('control', RL + 'Relations::replace', [rref, i, mk_entry(rel)]); model[i] = [spec]
            elif op == 'remove_entry': e.call_path('control', RL + 'Relations::remove_entry', [rref, i]); del model[i]
            elif op == 'entry_push': e.call_path('control', RL + 'Entry::push', [Ref([entry(i)], [0]), rel]); model[i] = model[i] + [spec]
            elif op == 'entry_replace': e.call_path('control', RL + 'Entry::replace', [Ref([entry(i)], [0]), j, rel]); model[i] = model[i][:j] + [spec] + model[i][j+1:]
            elif op in ('entry_remove_relation', 'relation_remove'):
                if op == 'entry_remove_relation': e.call_path('control', RL + 'Entry::remove_relation', [Ref([entry(i)], [0]), j])
                else: e.call_path('control', RL + 'Relation::remove', [Ref([relation(i, j)], [0])])
                model[i] = model[i][:j] + model[i][j+1:]
                if not model[i]: del model[i]
            elif op == 'entry_remove': e.call_path('control', RL + 'Entry::remove', [Ref([entry(i)], [0])]); del model[i]
            else:
                rl = relation(i, j); rr = Ref([rl], [0]); m = dict(model[i][j]); model[i] = model[i][:j] + [m] + model[i][j+1:]
                if op == 'set_version':
                    # every operator in the one-step relation families, >= elsewhere
                    VOPS = [('>=', 'GreaterThanEqual'), ('<=', 'LessThanEqual'), ('=', 'Equal'), ('>>', 'GreaterThan'), ('<<', 'LessThan')]
                    sym, vname = VOPS[e.choose('vop', 5)] if case['name'].startswith('rel-ops') else VOPS[0]
                    rec['vop'] = sym
                    e.call_path('control', RL + 'Relation::set_version', [rr, SOME(Agg('tuple', [EnumV(vck, vname), version_parse(e, Str(val))]))]); m['version'] = (sym, val)
                elif op == 'unset_version': e.call_path('control', RL + 'Relation::set_version', [rr, NONE()]); m['version'] = None
                elif op == 'drop_constraint': e.call_path('control', RL + 'Relation::drop_constraint', [rr]); m['version'] = None
                elif op == 'set_archqual': e.call_path('control', RL + 'Relation::set_archqual', [rr, Str(val)]); m['archqual'] = val
                elif op == 'set_architectures':
                    from mirsym.models_iter import ListIter
                    e.call_path('control', RL + 'Relation::set_architectures::<ListIter>', [rr, ListIter([Str(val)])]); m['archs'] = [(False, val)]
                elif op == 'add_profile':
                    e.call_path('control', RL + 'Relation::add_profile', [rr, VecV([EnumV(bpk, 'Enabled', [Str(val)])])]); m['profiles'] = list(m['profiles']) + [[(False, val)]]
            T = call_to_string(e, 'control', RL + 'Relations', root); texts.append(T)
            rp = e.call_path('control', RL + 'Relations::parse_relaxed', [T, True])
            checks.append(('step %d (%s): the field prints to text that parses without error' % (h, op), len(e.deref(rp.slots[1]).slots) == 0))
            got, sv = read_lossless_field(e, rp.slots[0])
            checks.append(('step %d (%s): re-read structure == list-of-lists model' % (h, op), structure_cond(e, got, model, True)))
            checks.append(('step %d (%s): substitution variables keep their text' % (h, op), len(sv) == len(svs) and b_and(*[veq(e, a, Str(b)) for a, b in zip(sv, svs)])))
            shape = ''.join(chr(c) if isinstance(c, int) else 'x' for c in T.chars)
            checks.append(('step %d (%s): no doubled / dangling separators' % (h, op), BADSEP.search(shape) is None))
        return {'pred': {'texts': texts}, 'checks': checks}

    def oracle(self, case, w, nat):
        s = w['s']
        if nat.get('timeout'): return [('hang', 'edit history does not terminate: %r on %r' % (w['ops'], s))]
        if 'crash' in nat: return [('crash', nat['crash'])]
        if 'panic' in nat: return [('panic:' + classify_panic(nat['panic']), nat['panic'][:200])]
        if 'input_errors' in nat: return []
        model = [[dict(r) for r in en] for en in w['spec'] if isinstance(en, list)]
        v = []
        ctx = field_ctx(w)
        for k, op in enumerate(w['ops']):
            if k + 1 >= len(nat['states']): break
            st = nat['states'][k + 1]; name = op['op']; i = op.get('i', 0); j = op.get('j', 0)
            how = (op.get('operand') or {}).get('how', '-')
            cls_ctx = '%s:%s:%s' % (name, how, ctx if k == 0 else 'after-' + w['ops'][k-1]['op'])
            if 'panic' in st: return v + [('panic:%s:%s' % (classify_panic(st['panic']), cls_ctx), '%s panics: %s (history %r on %r)' % (name, st['panic'][:120], w['ops'][:k+1], s))]
            new = None
            if op.get('operand'): new = {'name': op['operand']['name'], 'archqual': None, 'version': op['operand']['version'], 'archs': None, 'profiles': [], 'features': []}
            if name == 'push': model.append([new])
            elif name == 'push2': model.append([new, {'name': op['operand2']['name'], 'archqual': None, 'version': op['operand2']['version'], 'archs': None, 'profiles': [], 'features': []}])
            elif name == 'insert': model.insert(i, [new])
            elif name == 'replace': model[i] = [new]
            elif name in ('remove_entry', 'entry_remove'): del model[i]
            elif name == 'entry_push': model[i].append(new)
            elif name == 'entry_replace': model[i][j] = new
            elif name in ('entry_remove_relation', 'relation_remove'):
                del model[i][j]
                if not model[i]: del model[i]
            elif name == 'set_version': model[i][j]['version'] = [op.get('vop', '>='), op['value']]
            elif name in ('unset_version', 'drop_constraint'): model[i][j]['version'] = None
            elif name == 'set_archqual': model[i][j]['archqual'] = op['value']
            elif name == 'set_architectures': model[i][j]['archs'] = [[False, op['value']]]
            elif name == 'add_profile': model[i][j]['profiles'] = model[i][j]['profiles'] + [[[False, op['value']]]]
            t = st['text']
            if st['reparse_errors']: v.append(('unparsable:' + cls_ctx, 'after %r on %r the field prints %r which does not parse' % (w['ops'][:k+1], s, t)))
            elif 'panic' in st['structure']: v.append(('accessor-panic:' + cls_ctx, 'accessor panics on %r' % t))
            else:
                d = c10.diff_structure(st['structure']['entries'], model)
                if d: v.append(('model-differs:%s:%s' % ('+'.join(d), cls_ctx), 'after %r on %r the field prints %r = %r, list model %r' % (w['ops'][:k+1], s, t, st['structure']['entries'], model)))
                elif BADSEP.search(t): v.append(('bad-separator:' + cls_ctx, 'after %r on %r the field prints %r' % (w['ops'][:k+1], s, t)))
                if st['structure'].get('substvars') != w['substvars']: v.append(('substvars-changed:' + cls_ctx, 'substitution variables %r became %r in %r' % (w['substvars'], st['structure'].get('substvars'), t)))
            if v: return v
        return v

    def compare(self, case, pred, nat):
        if 'states' not in nat: return []
        for k, (t, st) in enumerate(zip(pred.get('texts', []), nat['states'][1:])):
            if 'panic' in st: return ['native panics at step %d' % k]
            if t != st['text']: return ['text after step %d: %r vs %r' % (k, t, st['text'])]
        return []

    def coverage_keys(self, case, w, nat): return ['case=' + case['name']] + ['op=' + o_['op'] for o_ in w['ops']]


def field_ctx(w):
    s = w['s']
    if s == '': return 'empty-field'
    n = len([en for en in w['spec'] if isinstance(en, list)])
    f = 'one-entry' if n == 1 else 'multi-entry'
    if w['substvars']: f += '+substvar'
    if '\n' in s: f += '+newline'
    return f


HARNESS = C11()
