"""Field tables of the structs deriving the paragraph conversions (read from /repo's current source) and
base documents for the typed lossy readers (calibrated by native probing at case-generation time)."""
import os, re, glob, json

REPO = os.environ.get('VERIF_REPO', '/repo')
CRATE_SRC = {'deb822': 'src', 'control': 'debian-control/src', 'copyright': 'debian-copyright/src', 'dep3': 'dep3/src', 'aptsources': 'apt-sources/src'}


def split_top(s, sep=','):
    out = []; depth = 0; cur = []
    q = None
    for i, ch in enumerate(s):
        if q:
            cur.append(ch)
            if ch == q and s[i-1] != '\\': q = None
            continue
        if ch == '"': q = ch; cur.append(ch); continue
        if ch in '([{<': depth += 1
        elif ch in ')]}' or (ch == '>' and s[i-1] not in '-='): depth -= 1
        if ch == sep and depth == 0:
            out.append(''.join(cur).strip()); cur = []
        else: cur.append(ch)
    t = ''.join(cur).strip()
    if t: out.append(t)
    return out


def deriving_structs():
    """{(crate, module path, struct name): {'from': bool, 'to': bool, 'fields': [ {field, ident, ty, optional, de, ser} ]}}"""
    res = {}
    for crate, d in CRATE_SRC.items():
        base = os.path.join(REPO, d)
        for path in glob.glob(base + '/**/*.rs', recursive=True):
            rel = os.path.relpath(path, base)[:-3]
            mod = [] if rel in ('lib', 'main') else rel.split('/')
            if mod and mod[-1] == 'mod': mod = mod[:-1]
            t = open(path).read()
            # cut test modules
            k = t.find('#[cfg(test)]')
            if k >= 0: t = t[:k]
            for m in re.finditer(r'#\[derive\(([^)]*)\)\]\s*(?:///[^\n]*\n\s*|#\[[^\]]*\]\s*)*pub struct (\w+)\s*\{', t):
                derives = m.group(1)
                if 'FromDeb822' not in derives and 'ToDeb822' not in derives: continue
                i = m.end(); depth = 1; j = i
                while depth:
                    if t[j] == '{': depth += 1
                    elif t[j] == '}': depth -= 1
                    j += 1
                body = t[i:j-1]
                body = re.sub(r'//[^\n]*', '', body)
                fields = []
                for part in split_top(body):
                    attrs = ' '.join(re.findall(r'#\[deb822\((.*?)\)\]', part, re.S))
                    mm = re.search(r'(?:pub(?:\([^)]*\))?\s+)?(\w+)\s*:\s*(.+)$', re.sub(r'#\[.*?\]\s*', '', part, flags=re.S).strip(), re.S)
                    if not mm: continue
                    ident, ty = mm.group(1), re.sub(r'\s+', ' ', mm.group(2).strip())
                    fm = re.search(r'field\s*=\s*"([^"]*)"', attrs)
                    de = re.search(r'deserialize_with\s*=\s*([\w:]+)', attrs)
                    se = re.search(r'serialize_with\s*=\s*([\w:]+)', attrs)
                    # default key: the derive capitalises?  read the macro convention: field name as written
                    fields.append({'field': fm.group(1) if fm else None, 'ident': ident, 'ty': ty, 'optional': ty.startswith('Option<'),
                                   'de': de.group(1) if de else None, 'ser': se.group(1) if se else None})
                res[(crate, '::'.join(mod), m.group(2))] = {'from': 'FromDeb822' in derives, 'to': 'ToDeb822' in derives, 'fields': fields, 'file': path}
    return res


POOL = ['1', 'a', 'yes', 'true', 'optional', 'http://a/', '2020-01-01', 'a b', 'any', 'deb', 'Tue, 01 Jan 2019 00:00:00 +0000', '1.0', 'a@b', 'a <a@b>',
        'd41d8cd98f00b204e9800998ecf8427e 0 a', 'low', 'same', 'no', 'a 1', '0']

# entry -> (replay entry name, [ (crate, module, struct) per paragraph ], text prefix requirements)
DOCS = {
    'control::lossy::Control::from_str': [('control', 'lossy::control', 'Source'), ('control', 'lossy::control', 'Binary')],
    'control::lossy::apt::Release::from_str': [('control', 'lossy::apt', 'Release')],
    'control::lossy::apt::Source::from_str': [('control', 'lossy::apt', 'Source')],
    'control::lossy::apt::Package::from_str': [('control', 'lossy::apt', 'Package')],
    'control::lossy::buildinfo::Buildinfo::from_str': [('control', 'lossy::buildinfo', 'Buildinfo')],
    'control::lossy::ftpmaster::Removal::from_str': [('control', 'lossy::ftpmaster', 'Removal')],
    'copyright::lossy::Copyright::from_str': [('copyright', 'lossy', 'Header'), ('copyright', 'lossy', 'FilesParagraph'), ('copyright', 'lossy', 'LicenseParagraph')],
    'dep3::lossy::PatchHeader::from_str': [('dep3', 'lossy', 'PatchHeader')],
    'aptsources::Repositories::from_str': [('aptsources', '', 'Repository')],
}


def render(paras):
    return '\n'.join(''.join('%s: %s\n' % (k, v) for k, v in p) for p in paras)


def calibrate(rp, entry, structs, table):
    """find values for the mandatory fields such that the real reader accepts the document (native probing)"""
    paras = []
    for key in structs:
        st = table[key]
        fs = [[f['field'], POOL[0]] for f in st['fields'] if f['field'] and not f['optional']]
        if not fs:   # nothing mandatory: a paragraph still needs one field
            named = [f for f in st['fields'] if f['field']]
            pick = [f for f in named if f['field'] in ('Description', 'Author')] or named
            fs = [[pick[0]['field'], POOL[0]]]
        paras.append(fs)
    if entry.startswith('copyright::'):
        for k in paras[0]:
            if k[0] == 'Format': k[1] = 'https://www.debian.org/doc/packaging-manuals/copyright-format/1.0/'
        # Format must be the first field of the text
        paras[0].sort(key=lambda kv: kv[0] != 'Format')
        if not any(k[0] == 'Format' for k in paras[0]): paras[0].insert(0, ['Format', 'https://www.debian.org/doc/packaging-manuals/copyright-format/1.0/'])
    tried = {}
    for _ in range(400):
        r = rp.call({'op': 'total', 'entry': entry, 's': render(paras)})
        if r.get('ok'): return paras, True
        err = (r.get('err') or r.get('panic') or '')
        # find a field named in the error and advance its pool index
        hit = None
        for p in paras:
            for kv in p:
                if re.search(r'\b' + re.escape(kv[0]) + r'\b', err): hit = kv; break
            if hit: break
        if hit is None:
            # advance the first field that still has the default
            for p in paras:
                for kv in p:
                    if tried.get(id(kv), 0) < len(POOL) - 1: hit = kv; break
                if hit: break
        if hit is None: break
        i = tried.get(id(hit), 0) + 1
        if i >= len(POOL): tried[id(hit)] = i; continue
        tried[id(hit)] = i; hit[1] = POOL[i]
    return paras, False
