"""Generator of well-formed relationship fields (Debian Policy 7.1 grammar) with symbolic identifier characters, and readers."""
import z3
from mirsym.values import *
from mirsym.models_core import veq
from mirsym.models_iter import getiter, drain

RL = 'lossless::relations::'
OPS = ['<<', '<=', '=', '>=', '>>']
OPNAME = {'<<': 'LessThan', '<=': 'LessThanEqual', '=': 'Equal', '>=': 'GreaterThanEqual', '>>': 'GreaterThan'}
def o(s): return [ord(c) for c in s]


def alnum(c): return z3.Or(z3.And(c >= 48, c <= 57), z3.And(c >= 97, c <= 122), z3.And(c >= 65, c <= 90))
def identch(c): return z3.Or(alnum(c), c == 45, c == 46, c == 43, c == 126)
def digit(c): return z3.And(c >= 48, c <= 57)


class RelGen:
    def __init__(s, e, cfg):
        s.e = e; s.cfg = cfg
        styles = cfg.get('ws_styles', 1)
        s.style = cfg['ws_style'] if 'ws_style' in cfg else e.choose('ws', styles)          # 0: single spaces, 1: compact, 2: tabs, 3: newline + space, 4: bare newline
    def ws(s, mandatory=False):
        st = s.style
        if st == 0: return [32]
        if st == 1: return [32] if mandatory else []
        if st == 2: return [9]
        if st == 4: return [10]
        if st == 5:
            # alternating: two blanks, one blank, two blanks, ... so that neighbouring relations are laid out differently
            s.wsn = getattr(s, 'wsn', 0) + 1
            return [32, 32] if s.wsn % 2 else [32]
        return [10, 32]
    def pre_comma(s):
        """optional blank between an entry and the comma that follows it ('a , b')"""
        if not s.cfg.get('pre_comma') or not s.e.choose('pc', 2): return []
        return s.ws() or [32]
    def ident(s, name, first=alnum, rest=identch, maxlen=None):
        n = s.e.choose(name + 'len', maxlen or s.cfg.get('ident_chars', 1)) + 1
        return [s.e.fresh_ascii(name, first)] + [s.e.fresh_ascii(name, rest) for _ in range(n - 1)]
    def version(s):
        kind = s.e.choose('vkind', s.cfg.get('version_kinds', 1))
        d = lambda: s.e.fresh_ascii('v', digit)
        if kind == 0: return [d()], 'plain'
        if kind == 1: return [d(), 58, d()], 'epoch'
        if kind == 2: return [d(), 126, s.e.fresh_ascii('v', alnum)], 'tilde'
        return [d(), 45, d()], 'revision'
    def relation(s):
        e = s.e; cfg = s.cfg
        r = {'name': s.ident('n'), 'archqual': None, 'version': None, 'archs': None, 'profiles': [], 'features': []}
        text = list(r['name'])
        if cfg.get('archqual') and e.choose('aq', 2):
            r['archqual'] = s.ident('q')
            text += ([32] if (cfg.get('archqual_space') and e.choose('aqsp', 2)) else []) + [58] + (s.ws() if cfg.get('archqual_ws') else []) + r['archqual']
        if not cfg.get('no_version') and e.choose('ver', 2):
            op = OPS[e.choose('op', 5)]; v, vk = s.version()
            r['version'] = (op, v); r['features'].append('version-' + vk)
            text += s.ws() + [40] + o(op) + s.ws() + v + [41]
        na = e.choose('narch', cfg.get('archs', 0) + 1)
        if na:
            r['archs'] = []; text += s.ws() + [91]
            for i in range(na):
                neg = bool(cfg.get('negation', True) and e.choose('neg', 2)); a = s.ident('a')
                if i: text += s.ws(True)
                text += ([33] if neg else []) + a
                r['archs'].append((neg, a))
                if neg: r['features'].append('negated-arch')
            text += [93]
        for g in range(e.choose('ngroups', cfg.get('profile_groups', 0) + 1)):
            grp = []; text += s.ws() + [60]
            for i in range(e.choose('nterms', cfg.get('profile_terms', 1)) + 1):
                neg = bool(e.choose('pneg', 2)); p = s.ident('p')
                if i: text += s.ws(True)
                text += ([33] if neg else []) + p
                grp.append((neg, p))
            if len(grp) > 1: r['features'].append('multi-term-profile-group')
            text += [62]
            r['profiles'].append(grp)
        return r, text
    def field(s):
        """returns (text chars, entries: [ [relation dict] | ('substvar', chars) ], features)"""
        e = s.e; cfg = s.cfg
        entries = []; text = []
        ne = e.choose('E', cfg.get('entries', 1)) + 1
        first = True
        for ei in range(ne):
            if not first: text += s.pre_comma() + [44] + s.ws()
            first = False
            if cfg.get('empty_entries') and e.choose('empty', 2):
                text += [44] + s.ws()                       # an empty entry: ", ,"
                entries.append('empty')
            if cfg.get('substvars') and e.choose('sv', 2):
                sv = o('${') + s.ident('s', first=alnum, rest=alnum) + [58] + s.ident('t', first=alnum, rest=alnum) + [125]
                entries.append(('substvar', sv)); text += sv
                continue
            alts = []
            for ai in range(e.choose('A', cfg.get('alternatives', 1)) + 1):
                if ai: text += s.ws() + [124] + s.ws()
                r, t = s.relation(); alts.append(r); text += t
            entries.append(alts)
        if cfg.get('trailing_comma') and e.choose('tc', 2): text += [44]
        return text, entries


def spec_json(entries):
    """symbolic description for the witness"""
    out = []
    for en in entries:
        if en == 'empty': continue
        if isinstance(en, tuple): out.append({'substvar': Str(en[1])}); continue
        out.append([{'name': Str(r['name']), 'archqual': Str(r['archqual']) if r['archqual'] is not None else None,
                     'version': [r['version'][0], Str(r['version'][1])] if r['version'] else None,
                     'archs': [[n, Str(a)] for n, a in r['archs']] if r['archs'] is not None else None,
                     'profiles': [[[n, Str(p)] for n, p in g] for g in r['profiles']], 'features': r['features']} for r in en])
    return out


def read_lossless_relation(e, rel):
    """call the accessors of lossless Relation through the MIR; returns dict of symbolic values"""
    ref = Ref([rel], [0])
    name = e.call_path('control', RL + 'Relation::name', [ref])
    aq = e.call_path('control', RL + 'Relation::archqual', [ref])
    ver = e.call_path('control', RL + 'Relation::version', [ref])
    ar = e.call_path('control', RL + 'Relation::architectures', [ref])
    archs = None
    if ar.variant == 'Some': archs = list(drain(e, getiter(e, ar.slots[0])))
    profs = [[(b.variant, b.slots[0]) for b in e.deref(g).slots] for g in drain(e, getiter(e, e.call_path('control', RL + 'Relation::profiles', [ref])))]
    v = None
    if ver.variant == 'Some':
        vc, vv = ver.slots[0].slots
        from mirsym.models_ext import version_display
        v = (vc.variant, Str(version_display(e, vv)))
    return {'name': name, 'archqual': aq.slots[0] if aq.variant == 'Some' else None, 'version': v, 'archs': archs, 'profiles': profs}


def read_lossless_field(e, rels):
    ref = Ref([rels], [0])
    out = []
    for en in drain(e, getiter(e, e.call_path('control', RL + 'Relations::entries', [ref]))):
        out.append([read_lossless_relation(e, r) for r in drain(e, getiter(e, e.call_path('control', RL + 'Entry::relations', [Ref([en], [0])])))])
    sv = list(drain(e, getiter(e, e.call_path('control', RL + 'Relations::substvars', [ref]))))
    return out, sv


def read_lossy_field(e, rels):
    """lossy::Relations(Vec<Vec<Relation{name, archqual, architectures, version, profiles}>>) -> same dict shape"""
    from props.c18 import src_fields
    order = src_fields('debian-control/src/lossy/relations.rs', 'struct', 'Relation')
    out = []
    for en in e.deref(rels).slots[0].slots:
        alts = []
        for r in e.deref(en).slots:
            f = dict(zip(order, e.deref(r).slots))
            v = None
            if f['version'].variant == 'Some':
                from mirsym.models_ext import version_display
                vc, vv = f['version'].slots[0].slots; v = (vc.variant, Str(version_display(e, vv)))
            alts.append({'name': f['name'], 'archqual': f['archqual'].slots[0] if f['archqual'].variant == 'Some' else None, 'version': v,
                         'archs': list(e.deref(f['architectures'].slots[0]).slots) if f['architectures'].variant == 'Some' else None,
                         'profiles': [[(b.variant, b.slots[0]) for b in e.deref(g).slots] for g in e.deref(f['profiles']).slots]})
        out.append(alts)
    return out


def structure_cond(e, got, want_entries, arch_with_negation):
    """got: [[relation dict]] from a reader; want_entries: generator entries (without 'empty' / substvars)"""
    want = [en for en in want_entries if en != 'empty' and not isinstance(en, tuple)]
    if len(got) != len(want): return False
    conds = []
    for ga, wa in zip(got, want):
        if len(ga) != len(wa): return False
        for g, w in zip(ga, wa):
            conds.append(veq(e, g['name'], Str(w['name'])))
            if (g['archqual'] is None) != (w['archqual'] is None): return False
            if w['archqual'] is not None: conds.append(veq(e, g['archqual'], Str(w['archqual'])))
            if (g['version'] is None) != (w['version'] is None): return False
            if w['version'] is not None:
                if g['version'][0] != OPNAME[w['version'][0]]: return False
                conds.append(veq(e, g['version'][1], Str(w['version'][1])))
            if (g['archs'] is None) != (w['archs'] is None): return False
            if w['archs'] is not None:
                if len(g['archs']) != len(w['archs']): return False
                for ga_, (neg, a) in zip(g['archs'], w['archs']):
                    conds.append(veq(e, ga_, Str(([33] if (neg and arch_with_negation) else []) + a)))
                    if neg and not arch_with_negation: return False      # the API cannot express the negation that was written
            if len(g['profiles']) != len(w['profiles']): return False
            for gg, wg in zip(g['profiles'], w['profiles']):
                if len(gg) != len(wg): return False
                for (gv, gp), (neg, p) in zip(gg, wg):
                    if gv != ('Disabled' if neg else 'Enabled'): return False
                    conds.append(veq(e, gp, Str(p)))
    return b_and(*conds)
