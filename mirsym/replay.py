"""Client for the native replay binary (/verif/replay): JSON lines, watchdog, restart on hang.
Fork-safe: uses raw file descriptors; a process that finds the pipe dead simply starts its own replay process."""
import json, os, select, subprocess, time, signal

ROOT = os.path.dirname(os.path.dirname(os.path.abspath(__file__)))
WORK = os.path.join(ROOT, '.work')
TARGET = os.path.join(WORK, 'target-replay')


def build(release=False):
    """(re)build the replay binary against /repo's current tree; returns path or raises"""
    env = dict(os.environ, CARGO_NET_OFFLINE='true', CARGO_TARGET_DIR=TARGET, RUSTUP_TOOLCHAIN='stable')
    env.pop('RUSTFLAGS', None)
    cmd = ['cargo', 'build', '--offline'] + (['--release'] if release else [])
    p = subprocess.run(cmd, cwd=os.path.join(ROOT, 'replay'), env=env, stdout=subprocess.PIPE, stderr=subprocess.STDOUT)
    if p.returncode != 0:
        raise RuntimeError('replay build failed:\n' + p.stdout.decode()[-6000:])
    return os.path.join(TARGET, 'release' if release else 'debug', 'replay')


class Replay:
    def __init__(self, path, timeout=3.0):
        self.path = path; self.timeout = timeout; self.pid = None; self.calls = 0; self.timeouts = 0
        self.wfd = self.rfd = None; self.owner = None
        self.start()

    def start(self):
        r1, w1 = os.pipe(); r2, w2 = os.pipe()
        pid = os.fork()
        if pid == 0:
            try:
                os.dup2(r1, 0); os.dup2(w2, 1)
                dn = os.open(os.devnull, os.O_WRONLY); os.dup2(dn, 2)
                os.closerange(3, 4096)
                import resource
                resource.setrlimit(resource.RLIMIT_AS, (3 << 30, 3 << 30))   # a runaway native run must not exhaust the machine
                os.execv(self.path, [self.path])
            finally:
                os._exit(127)
        os.close(r1); os.close(w2)
        self.pid = pid; self.wfd = w1; self.rfd = r2; self.buf = b''; self.owner = os.getpid()

    def stop(self):
        if self.pid is not None:
            try: os.kill(self.pid, signal.SIGKILL)
            except OSError: pass
            if self.owner == os.getpid():
                try: os.waitpid(self.pid, 0)
                except OSError: pass
            for fd in (self.wfd, self.rfd):
                try: os.close(fd)
                except OSError: pass
            self.pid = None

    def call(self, req, timeout=None):
        """returns the reply dict; {'timeout': True} when the native run exceeds the watchdog; {'crash': ...} when the process dies"""
        for attempt in (0, 1):
            if self.pid is None: self.start()
            self.calls += 1
            data = (json.dumps(req) + '\n').encode()
            try:
                off = 0
                while off < len(data): off += os.write(self.wfd, data[off:])
            except OSError:
                self.stop()
                if attempt == 0: continue       # stale pipe (e.g. a forked sibling restarted the process): retry on a fresh one
                return {'crash': 'replay process died before the request'}
            deadline = time.time() + (timeout or self.timeout)
            while b'\n' not in self.buf:
                left = deadline - time.time()
                if left <= 0:
                    self.timeouts += 1; self.stop(); return {'timeout': True}
                r, _, _ = select.select([self.rfd], [], [], left)
                if not r: continue
                try: chunk = os.read(self.rfd, 1 << 16)
                except OSError: chunk = b''
                if not chunk:
                    self.stop()
                    if attempt == 0 and not self.buf: break
                    return {'crash': 'replay process exited: stack overflow / abort / OOM'}
                self.buf += chunk
            else:
                line, self.buf = self.buf.split(b'\n', 1)
                return json.loads(line)
        return {'crash': 'replay process exited: stack overflow / abort / OOM'}
