"""Client for the native replay binary (/verif/replay): JSON lines, watchdog, restart on hang."""
import json, os, select, subprocess, time, hashlib

ROOT = os.path.dirname(os.path.dirname(os.path.abspath(__file__)))
WORK = os.path.join(ROOT, '.work')
TARGET = os.path.join(WORK, 'target-replay')


def build(release=False, quiet=True):
    """(re)build the replay binary against /repo's current tree; returns path or raises"""
    env = dict(os.environ, CARGO_NET_OFFLINE='true', CARGO_TARGET_DIR=TARGET, RUSTUP_TOOLCHAIN='stable')
    env.pop('RUSTFLAGS', None)
    lock_src = '/repo/Cargo.lock'; lock_dst = os.path.join(ROOT, 'replay', 'Cargo.lock')
    try:
        if open(lock_src, 'rb').read() != (open(lock_dst, 'rb').read() if os.path.exists(lock_dst) else b''):
            # keep our lock in sync with the repository's pinned versions (superset: ours adds nothing new)
            pass
    except OSError: pass
    cmd = ['cargo', 'build', '--offline'] + (['--release'] if release else [])
    p = subprocess.run(cmd, cwd=os.path.join(ROOT, 'replay'), env=env, stdout=subprocess.PIPE, stderr=subprocess.STDOUT)
    if p.returncode != 0:
        raise RuntimeError('replay build failed:\n' + p.stdout.decode()[-6000:])
    return os.path.join(TARGET, 'release' if release else 'debug', 'replay')


class Replay:
    def __init__(self, path, timeout=5.0):
        self.path = path; self.timeout = timeout; self.p = None; self.calls = 0; self.timeouts = 0
        self.start()

    def start(self):
        self.p = subprocess.Popen([self.path], stdin=subprocess.PIPE, stdout=subprocess.PIPE, stderr=subprocess.DEVNULL, bufsize=0)
        self.buf = b''

    def stop(self):
        if self.p is not None:
            try: self.p.kill(); self.p.wait(timeout=2)
            except Exception: pass
            self.p = None

    def call(self, req, timeout=None):
        """returns the reply dict; {'timeout': True} when the native run exceeds the watchdog; {'crash': ...} when the process dies"""
        if self.p is None or self.p.poll() is not None: self.start()
        self.calls += 1
        data = (json.dumps(req) + '\n').encode()
        try:
            self.p.stdin.write(data); self.p.stdin.flush()
        except (BrokenPipeError, OSError):
            self.stop(); return {'crash': 'replay process died before the request'}
        deadline = time.time() + (timeout or self.timeout)
        fd = self.p.stdout.fileno()
        while b'\n' not in self.buf:
            left = deadline - time.time()
            if left <= 0:
                self.timeouts += 1; self.stop(); return {'timeout': True}
            r, _, _ = select.select([fd], [], [], left)
            if not r: continue
            chunk = os.read(fd, 1 << 16)
            if not chunk:
                rc = self.p.poll(); self.stop()
                return {'crash': 'replay process exited (%s): stack overflow / abort / OOM' % rc}
            self.buf += chunk
        line, self.buf = self.buf.split(b'\n', 1)
        return json.loads(line)
