"""mirsym: forking (re-execution based) symbolic executor for rustc MIR text dumps."""
import re, sys, time, os, glob, pickle
import z3
from .mirparse import parse_mir, lint, split_top, MirError
from .values import *

sys.setrecursionlimit(200000)

INT_RANGE = {
    'u8': (0, 2**8 - 1), 'u16': (0, 2**16 - 1), 'u32': (0, 2**32 - 1), 'u64': (0, 2**64 - 1), 'u128': (0, 2**128 - 1),
    'usize': (0, 2**64 - 1), 'i8': (-2**7, 2**7 - 1), 'i16': (-2**15, 2**15 - 1), 'i32': (-2**31, 2**31 - 1),
    'i64': (-2**63, 2**63 - 1), 'i128': (-2**127, 2**127 - 1), 'isize': (-2**63, 2**63 - 1), 'char': (0, 0x10FFFF),
}

MODELS = {}
MODEL_PATTERNS = []
EXTERNAL_CRATES = {'std', 'core', 'alloc', 'url', 'debversion', 'chrono', 'regex', 'rowan', 'serde', 'pyo3', 'lazy_regex'}
BARE_VARIANTS = {'Less': 'Ordering', 'Equal': 'Ordering', 'Greater': 'Ordering', 'None': 'Option', 'Some': 'Option', 'Ok': 'Result', 'Err': 'Result'}
DERIVE_TRAITS = {'FromDeb822': 'FromDeb822Paragraph', 'ToDeb822': 'ToDeb822Paragraph'}


def model(*names):
    def deco(f):
        for n in names:
            if n.startswith('re:'): MODEL_PATTERNS.append((re.compile(n[3:]), f))
            else: MODELS[n] = f
        return f
    return deco


def strip_generics(s):
    """remove ::<...> turbofish groups"""
    if '::<' not in s: return s
    out = []; i = 0; n = len(s)
    while i < n:
        if s.startswith('::<', i) and (not s.startswith('::<impl ', i) or _prev_seg_is_type(s, i) or _closes_at_end(s, i)):
            depth = 1; i += 3
            while depth and i < n:
                ch = s[i]
                if ch == '<': depth += 1
                elif ch == '>' and s[i-1] not in '-=': depth -= 1
                i += 1
            continue
        out.append(s[i]); i += 1
    return ''.join(out)


def _closes_at_end(s, i):
    depth = 0; j = i + 2
    while j < len(s):
        if s[j] == '<': depth += 1
        elif s[j] == '>' and s[j-1] not in '-=':
            depth -= 1
            if depth == 0: return j == len(s) - 1
        j += 1
    return False


def _prev_seg_is_type(s, i):
    j = i
    while j > 0 and (s[j-1].isalnum() or s[j-1] == '_'): j -= 1
    return j < i and s[j].isupper()


def strip_type_generics(t):
    """Foo<A,B> -> Foo (top level only, keeps path)"""
    i = t.find('<')
    return t if i < 0 else t[:i]


def last_seg(t):
    t = strip_generics(t.strip()).strip()
    t = re.sub(r"^&(?:'\w+ )?(?:mut )?", '', t)
    t = re.sub(r'<.*>$', '', t)
    return t.split('::')[-1]


def turbofish(raw):
    """generic args of the last path segment of a callee string: 'a::b::<X, Y>' -> ['X','Y']"""
    if not raw.endswith('>'): return []
    depth = 0; i = len(raw) - 1
    while i >= 0:
        ch = raw[i]
        if ch == '>' and (i == 0 or raw[i-1] not in '-='): depth += 1
        elif ch == '<':
            depth -= 1
            if depth == 0: break
        i -= 1
    if i >= 2 and raw[i-2:i] == '::':
        return split_top(raw[i+1:-1])
    return []


def unescape(s):
    if '\\' not in s: return s
    out = []; i = 0; n = len(s)
    while i < n:
        ch = s[i]
        if ch != '\\': out.append(ch); i += 1; continue
        nx = s[i+1]
        if nx == 'n': out.append('\n'); i += 2
        elif nx == 't': out.append('\t'); i += 2
        elif nx == 'r': out.append('\r'); i += 2
        elif nx == '0': out.append('\0'); i += 2
        elif nx == '\\': out.append('\\'); i += 2
        elif nx == '"': out.append('"'); i += 2
        elif nx == "'": out.append("'"); i += 2
        elif nx == 'x': out.append(chr(int(s[i+2:i+4], 16))); i += 4
        elif nx == 'u':
            j = s.index('}', i); out.append(chr(int(s[i+3:j], 16))); i = j + 1
        elif nx == '\n':   # line continuation (not emitted by the MIR printer)
            i += 2
        else: raise MirError('escape? ' + s[i:i+6])
    return ''.join(out)


class Frame:
    __slots__ = ('fn', 'locals', 'subst')
    def __init__(self, fn, subst=None):
        self.fn = fn; self.locals = [None] * (max(fn.ltypes) + 2 if fn.ltypes else 8); self.subst = subst


class Program:
    """the parsed MIR of the five crates + source-derived tables (enums, impl spans)"""
    def __init__(self, mirfiles, srcroot):
        self.srcroot = srcroot
        self.fns = {}          # name -> [Fn]
        self.all = []
        self.methods = {}      # last segment -> [Fn]
        self.byclosure = {}    # (crate, span) -> [Fn]
        self.statements = 0
        for crate, path in mirfiles.items():
            fl = parse_mir(open(path).read(), crate)
            self.statements += lint(fl)
            for f in fl:
                self.fns.setdefault(f.name, []).append(f); self.all.append(f)
                last = f.name.split('::')[-1]
                self.methods.setdefault(last, []).append(f)
                if f.argtypes and '{closure#' in last:
                    m = re.match(r'^&?(?:mut )?\{closure@([^}]*)\}$', f.argtypes[0])
                    if m: self.byclosure.setdefault((crate, m.group(1)), []).append(f)
        self.closure_rewrites = 0
        for crate in mirfiles:
            amb = {span for (c, span), l in self.byclosure.items() if c == crate and len(l) > 1}
            if amb: self._disambiguate_closures(crate, amb, mirfiles[crate])
        self.impl_cache = {}
        self.src_cache = {}
        self.enums = {}        # 'crate::mod::Name' -> [(variant, discr)]
        self.structs = {}      # 'crate::mod::Name' -> [field names]
        self.reexports = {}    # crate -> {Name: module}
        self._scan_sources()

    def _disambiguate_closures(self, crate, amb, plain_path):
        """closures of one macro expansion share a span: read their {closure#N} identity off an aligned -Zverbose-internals dump"""
        from . import mirdump
        vpath = plain_path[:-4] + '.v.mir'
        if not os.path.exists(vpath): vpath = mirdump.dump_verbose(crate)
        vf = parse_mir(open(vpath).read(), crate)
        pf = [f for f in self.all if f.crate == crate]
        if len(vf) != len(pf): raise MirError('verbose dump of %s does not align: %d vs %d items' % (crate, len(vf), len(pf)))
        byname = {}
        for f in pf: byname.setdefault(f.name, []).append(f)
        pat = re.compile(r'((?:::\{closure#\d+\})+) closure_kind_ty')
        spanpat = re.compile(r'\{closure@([^}]*)\}')
        def rewrite(x, mapping):
            if isinstance(x, str):
                for span, name in mapping.items():
                    x = x.replace('{closure@%s}' % span, '{closure#%s}' % name)
                return x
            if isinstance(x, tuple): return tuple(rewrite(y, mapping) for y in x)
            if isinstance(x, list): return [rewrite(y, mapping) for y in x]
            return x
        for f, g in zip(pf, vf):
            if f.name != g.name or set(f.blocks) != set(g.blocks): raise MirError('verbose dump misaligned at ' + f.name)
            depth = f.name.count('::{closure#')
            for b, sts in f.blocks.items():
                gst = g.blocks[b]
                if len(gst) != len(sts): raise MirError('verbose dump misaligned in %s bb%d' % (f.name, b))
                for i, st in enumerate(sts):
                    raw = g.blocks[b][i]
                    if 'closure#' not in raw: continue
                    flat = repr(st)
                    spans = []
                    for m in spanpat.finditer(flat):
                        if m.group(1) in amb and m.group(1) not in spans: spans.append(m.group(1))
                    if not spans: continue
                    kids = []
                    for m in pat.finditer(raw):
                        chain = re.findall(r'\{closure#(\d+)\}', m.group(1))
                        if len(chain) == depth + 1 and chain[-1] not in kids: kids.append(chain[-1])
                    if len(kids) != len(spans): continue     # left ambiguous: reaching it is reported as unencoded
                    mapping = {}
                    for span, k in zip(spans, kids):
                        name = '%s::{closure#%s}' % (f.name, k)
                        if name in self.fns: mapping[span] = name
                    if mapping:
                        sts[i] = rewrite(st, mapping); self.closure_rewrites += 1

    CRATE_DIRS = {'deb822': '.', 'control': 'debian-control', 'copyright': 'debian-copyright', 'dep3': 'dep3',
                  'aptsources': 'apt-sources'}

    def _scan_sources(self):
        for crate, d in self.CRATE_DIRS.items():
            base = os.path.join(self.srcroot, d, 'src')
            for path in glob.glob(base + '/**/*.rs', recursive=True):
                rel = os.path.relpath(path, base)[:-3]
                mod = [] if rel in ('lib', 'main') else rel.split('/')
                if mod and mod[-1] == 'mod': mod = mod[:-1]
                t = open(path).read()
                t_nc = re.sub(r'//[^\n]*', '', t)
                for m in re.finditer(r'\benum (\w+)\s*(?:<[^>{]*>)?\s*\{', t_nc):
                    i = m.end(); depth = 1; j = i
                    while depth:
                        if t_nc[j] == '{': depth += 1
                        elif t_nc[j] == '}': depth -= 1
                        j += 1
                    body = re.sub(r'#\[[^\]]*\]', '', t_nc[i:j-1])
                    vs = []; nxt = 0
                    for part in split_top(body):
                        mm = re.match(r'^(\w+)', part.strip())
                        if not mm: continue
                        me = re.search(r'=\s*(-?\d+)\s*$', part)
                        if me: nxt = int(me.group(1))
                        vs.append((mm.group(1), nxt)); nxt += 1
                    self.enums['::'.join([crate] + mod + [m.group(1)])] = vs
                if rel == 'lib':
                    for m in re.finditer(r'pub use (?:crate::)?([\w:]+)::\{([^}]*)\};', t_nc):
                        for nm in m.group(2).split(','):
                            nm = nm.strip()
                            if nm: self.reexports.setdefault(crate, {})[nm] = m.group(1)
                    for m in re.finditer(r'pub use (?:crate::)?([\w:]+)::(\w+);', t_nc):
                        self.reexports.setdefault(crate, {})[m.group(2)] = m.group(1)

    def enum_lookup(self, path, crate):
        """path as written in MIR (maybe abbreviated) -> key in self.enums or None"""
        path = strip_generics(path)
        segs = path.split('::')
        ext = {'deb822_lossless': 'deb822', 'debian_control': 'control', 'debian_copyright': 'copyright', 'dep3': 'dep3',
               'apt_sources': 'aptsources'}
        if segs[0] in ext and len(segs) > 1:
            crate = ext[segs[0]]; segs = segs[1:]
        if segs[0] == 'crate': segs = segs[1:]
        suffix = '::' + '::'.join(segs)
        c = [k for k in self.enums if k.startswith(crate + '::') and k.endswith(suffix)]
        if len(c) == 1: return c[0]
        if len(c) > 1:
            c2 = [k for k in c if k == crate + suffix]
            if len(c2) == 1: return c2[0]
            raise Unsupported('ambiguous enum ' + path + ' in ' + crate)
        # re-exported name
        re_ = self.reexports.get(crate, {})
        if len(segs) == 1 and segs[0] in re_:
            k = crate + '::' + re_[segs[0]] + '::' + segs[0]
            if k in self.enums: return k
        c = [k for k in self.enums if k.endswith(suffix)]
        if len(c) == 1: return c[0]
        return None

    def src_text(self, crate, path, l1, c1, l2, c2):
        full = os.path.join(self.srcroot, path) if not path.startswith('/') else path   # spans are relative to the cargo invocation dir (/repo)
        if full not in self.src_cache:
            try: self.src_cache[full] = open(full).read().split('\n')
            except OSError: self.src_cache[full] = None
        lines = self.src_cache[full]
        if lines is None: return ''
        if l1 == l2: return lines[l1-1][c1-1:c2-1]
        return ' '.join([lines[l1-1][c1-1:]] + lines[l1:l2-1] + [lines[l2-1][:c2-1]])

    def impl_info(self, f):
        m = re.search(r'<impl at ([^:>]+):(\d+):(\d+): (\d+):(\d+)>', f.name)
        if not m: return None
        key = (f.crate, m.group(0))
        if key in self.impl_cache: return self.impl_cache[key]
        text = self.src_text(f.crate, m.group(1), int(m.group(2)), int(m.group(3)), int(m.group(4)), int(m.group(5)))
        text = re.sub(r'\s+', ' ', text).strip()
        info = {'text': text, 'trait': None, 'self': None, 'derive': False, 'params': []}
        mm = re.match(r'^(?:unsafe )?impl\s*(<.*?>)?\s*(?:(.+) for )?(.+)$', text)
        if text.startswith('impl') and mm:
            # generic params: split carefully (impl<'a, P: X> ...)
            t = text[4:].lstrip()
            params = []
            if t.startswith('<'):
                depth = 0
                for i, ch in enumerate(t):
                    if ch == '<': depth += 1
                    elif ch == '>' and t[i-1] not in '-=':
                        depth -= 1
                        if depth == 0: break
                params = [p.split(':')[0].strip() for p in split_top(t[1:i])]
                t = t[i+1:].strip()
            # ' for ' at top level
            depth = 0; cut = None
            for i, ch in enumerate(t):
                if ch == '<': depth += 1
                elif ch == '>' and t[i-1] not in '-=': depth -= 1
                elif depth == 0 and t.startswith(' for ', i): cut = i; break
            if cut is not None:
                info['trait'] = t[:cut].strip(); info['self'] = t[cut+5:].strip()
            else:
                info['self'] = t.strip()
            if info['self'] and ' where ' in info['self']: info['self'] = info['self'].split(' where ')[0].strip()
            info['params'] = [p for p in params if not p.startswith("'")]
        else:
            info['trait'] = text; info['derive'] = True
        self.impl_cache[key] = info
        return info


class Engine:
    def __init__(self, prog):
        self.prog = prog
        self.models = MODELS
        self.stats = dict(solver_calls=0, solver_time=0.0, paths=0, blocks=0)
        self.solver = z3.Solver()
        self.seed = 0
        self.cur_model = None; self.model_upto = 0; self.n_asserted = 0; self._pc = []
        self.used_fns = {}
        self._zst_closures = {}
        self.used_models = set()
        self.res_cache = {}
        self.fuel_limit = 100000
        self.hooks = {}           # callee-name -> python callable (harness interceptions)
        self.hook_patterns = []   # (compiled regex, model function): harness-level dispatch that takes precedence over local bodies
        self.trace = False
        self.nsym = 0
        self.decisions = []; self.prefix = []; self.new_alternatives = []
        self.fuel = 0
        self.depth = 0
        self.max_depth = 0
        self.fork_mode = False; self.is_child = False; self.collected = []; self.deadline = None; self.unexplored = 0; self.child_crashes = 0
        self.forks = 0; self.fork_sc0 = 0; self.fork_st0 = 0.0; self.slice_deadline = None; self.leftover_alts = []

    # ----- path control ---------------------------------------------------------
    def start_path(self, prefix):
        self.prefix = prefix; self.decisions = []; self._pc = []; self.fuel = 0
        self.new_alternatives = []
        self.solver.reset()
        self.solver.set('random_seed', self.seed)
        self.cur_model = None; self.n_asserted = 0; self.model_upto = 0
        self.nsym = 0; self.depth = 0; self.max_depth = 0; self.forks = 0
        ASCII_TERMS.clear()
        self.stats['paths'] += 1

    @property
    def pc(self): return self._pc

    def assume(self, c):
        if c is True: return
        if c is False: raise Infeasible()
        self._pc.append(c)

    def fresh_int(self, name):
        self.nsym += 1
        return z3.Int('%s_%d' % (name, self.nsym))

    def fresh_char(self, name):
        c = self.fresh_int(name); self.assume(char_ok(c)); return c

    def fresh_ascii(self, name, cond=None):
        """a fresh character term assumed to be ASCII (0..0x7f) and to satisfy cond"""
        c = self.fresh_int(name); self.assume(z3.And(c >= 0, c < 0x80)); mark_ascii(c)
        if cond is not None: self.assume(cond(c))
        return c

    def sync(self):
        while self.n_asserted < len(self._pc):
            self.solver.add(self._pc[self.n_asserted]); self.n_asserted += 1

    def check(self, extra=None, want_model=False):
        """is PC ∧ extra satisfiable?"""
        t = time.time()
        self.sync()
        if extra is not None:
            self.solver.push(); self.solver.add(extra)
        r = self.solver.check()
        m = self.solver.model() if (r == z3.sat and want_model) else None
        if extra is not None: self.solver.pop()
        self.stats['solver_calls'] += 1; self.stats['solver_time'] += time.time() - t
        if r == z3.unknown: raise Unsupported('solver returned unknown')
        if want_model: return m
        return r == z3.sat

    def get_model(self):
        if self.cur_model is not None and self.model_upto < len(self._pc):
            for c in self._pc[self.model_upto:]:
                if not z3.is_true(self.cur_model.eval(c, model_completion=True)):
                    self.cur_model = None; break
        if self.cur_model is None:
            self.cur_model = self.check(None, want_model=True)
            if self.cur_model is None: raise Infeasible()
        self.model_upto = len(self._pc)
        return self.cur_model

    def branch(self, cond):
        """decide a (possibly symbolic) boolean; forks when both sides are feasible"""
        if isinstance(cond, bool): return cond
        if isinstance(cond, int): return bool(cond)
        cond = z3.simplify(cond)
        if z3.is_true(cond): return True
        if z3.is_false(cond): return False
        i = len(self.decisions)
        if i < len(self.prefix):
            d = self.prefix[i]
        else:
            m = self.get_model()
            mv = z3.is_true(m.eval(cond, model_completion=True))
            other = self.check(z3.Not(cond) if mv else cond)
            d = mv
            if other:
                self.forks += 1
                if self.fork_mode:
                    now = time.time()
                    if self.deadline is not None and now > self.deadline:
                        self.unexplored += 1          # past the wall budget: this side is reported as unexplored
                    elif self.slice_deadline is not None and now > self.slice_deadline:
                        self.leftover_alts.append(self.decisions + [not mv])   # time slice used up: hand the other side back to the master
                    elif not self.fork_child():
                        d = not mv                    # parent: the child has explored side `mv` completely
                else:
                    self.new_alternatives.append(self.decisions + [not mv])
        # forced branches are recorded too, so that a prefix replays position by position
        self.decisions.append(d)
        self._pc.append(cond if d else z3.Not(cond))
        return d

    def fork_child(self):
        """fork mode: returns True in the child (which explores the current side and everything below it);
        in the parent, waits for the child's subtree, stores its pickled result and returns False"""
        r, w = os.pipe()
        sys.stdout.flush(); sys.stderr.flush()
        pid = os.fork()
        if pid == 0:
            os.close(r)
            self.out_fd = w; self.is_child = True; self.collected = []; self.unexplored = 0; self.child_crashes = 0; self.leftover_alts = []
            self.fork_sc0 = self.stats['solver_calls']; self.fork_st0 = self.stats['solver_time']
            return True
        os.close(w)
        chunks = []
        while True:
            b = os.read(r, 1 << 20)
            if not b: break
            chunks.append(b)
        os.close(r)
        try: os.waitpid(pid, 0)
        except ChildProcessError: pass
        if chunks:
            try: self.collected.append(pickle.loads(b''.join(chunks)))
            except Exception: self.child_crashes += 1
        else:
            self.child_crashes += 1
        return False

    def choose(self, name, k):
        """symbolic choice in range(k): forks k ways"""
        if k <= 1: return 0
        v = self.fresh_int(name); self.assume(z3.And(v >= 0, v < k))
        for i in range(k - 1):
            if self.branch(v == i): return i
        return k - 1

    def concretize(self, k, candidates):
        """k symbolic int; returns index i with k == candidates[i] (forking); None if none matches"""
        for i, c in enumerate(candidates):
            if self.branch(s_eq(k, c)): return i
        return None

    def concretize_small(self, k, lo, hi):
        """fork over lo..hi for symbolic k (returns concrete int) ; Unsupported if out of range feasible"""
        if isinstance(k, int): return k
        for v in range(lo, hi + 1):
            if self.branch(k == v): return v
        raise Unsupported('symbolic integer outside [%d,%d]' % (lo, hi))

    # ----- resolution -----------------------------------------------------------
    def _pick(self, cands, crate):
        if crate:
            inn = [f for f in cands if f.crate == crate]
            if inn: return inn
        return cands

    EXT = {'deb822_lossless': 'deb822', 'debian_control': 'control', 'debian_copyright': 'copyright', 'dep3': 'dep3',
           'apt_sources': 'aptsources'}

    def resolve_local(self, callee, crate=None):
        key = (callee, crate)
        if key in self.res_cache: return self.res_cache[key]
        f = self._resolve_local(callee, crate)
        self.res_cache[key] = f
        return f

    def _norm_path(self, c, crate):
        """handle extern-crate prefixes and re-exports; returns (path, crate)"""
        segs = c.split('::')
        if segs[0] in self.EXT and len(segs) > 1:
            crate = self.EXT[segs[0]]; segs = segs[1:]
            re_ = self.prog.reexports.get(crate, {})
            if segs[0] in re_:
                segs = re_[segs[0]].split('::') + segs
        return '::'.join(segs), crate

    def _resolve_local(self, callee, crate=None):
        P = self.prog
        c = strip_generics(callee)
        m = re.match(r'^<(.+) as (.+)>::(\w+)$', c)
        if m:
            selfty, trait, meth = m.group(1), m.group(2), m.group(3)
            st = last_seg(selfty); tr = last_seg(trait)
            trait_args = None
            mt = re.match(r'^.*?<(.*)>$', trait.strip())
            bare_self = strip_type_generics(re.sub(r"^&(?:'\w+ )?(?:mut )?", '', selfty.strip()))
            ext_self = bare_self.split('::')[0] if bare_self.split('::')[0] in EXTERNAL_CRATES and '::' in bare_self else None
            sty_norm, scrate = self._norm_path(bare_self, crate)
            cands = []
            selfpath = {}
            for f in P.methods.get(meth, []):
                info = P.impl_info(f)
                if not info or not info['trait']: continue
                if info['derive']:
                    dn = info['trait'].split('::')[-1]
                    if dn != tr and DERIVE_TRAITS.get(dn) != tr: continue
                elif last_seg(info['trait']) != tr: continue
                if info['derive'] or '$' in (info['self'] or ''):
                    # derive / macro_rules impl: the self type is read off the signature
                    a0 = f.argtypes[0] if f.argtypes else ''
                    sp = None
                    if last_seg(a0) == st: sp = a0
                    elif last_seg(f.ret) == st: sp = f.ret
                    elif re.search(r'\b' + re.escape(st) + r'\b', f.ret or ''):
                        mm = re.search(r'((?:\w+::)*' + re.escape(st) + r')\b', f.ret); sp = mm.group(1)
                    if sp is None: continue
                    selfpath[f] = strip_type_generics(re.sub(r"^&(?:'\w+ )?(?:mut )?", '', sp.strip()))
                    cands.append(f)
                    continue
                if last_seg(info['self']) == st:
                    selfpath[f] = strip_type_generics(re.sub(r"^&(?:'\w+ )?(?:mut )?", '', info['self'].strip())); cands.append(f)
                elif info['self'] in info['params']: selfpath[f] = None; cands.append(f)    # blanket impl
            if ext_self: cands = [f for f in cands if (selfpath.get(f) or '').split('::')[0] == ext_self]
            cands = self._pick(cands, scrate)
            if len(cands) > 1:
                # a candidate whose impl text qualifies its self type with a module that contradicts the requested one is dropped
                req_mod = [x for x in sty_norm.split('::')[:-1] if x != 'crate']
                def compatible(f):
                    sp = selfpath.get(f) or ''
                    cm = [x for x in sp.split('::')[:-1] if x != 'crate']
                    if not cm and sp and '::<impl' in f.name:
                        cm = f.name.split('::<impl')[0].split('::')       # unqualified self type: defined in the impl's own module
                    if not cm or not req_mod: return True
                    k = min(len(cm), len(req_mod))
                    return cm[-k:] == req_mod[-k:] or cm[:k] == req_mod[:k]
                c2 = [f for f in cands if compatible(f)]
                if c2: cands = c2
            if len(cands) > 1:
                # disambiguate by module of the self type
                mod = '::'.join(sty_norm.split('::')[:-1])
                if mod:
                    c2 = [f for f in cands if f.name.startswith(mod + '::') or (selfpath.get(f) or '').endswith(sty_norm) or f.name.startswith(mod.split('::')[-1] + '::')]
                    if len(c2) >= 1: cands = c2
                else:
                    # no module written: prefer the type re-exported at the crate root
                    re_ = P.reexports.get(scrate or '', {})
                    if st in re_:
                        c2 = [f for f in cands if f.name.startswith(re_[st] + '::')]
                        if len(c2) >= 1: cands = c2
            if len(cands) > 1 and mt:
                # disambiguate by trait arguments (From<X> etc.): compare with the impl text
                targ = last_seg(split_top(mt.group(1))[0]) if mt.group(1) else None
                c2 = []
                for f in cands:
                    info = P.impl_info(f)
                    mi = re.match(r'^.*?<(.*)>$', info['trait'] or '')
                    if mi and targ and last_seg(split_top(mi.group(1))[0]) == targ: c2.append(f)
                if c2: cands = c2
            if len(cands) > 1:
                # exact comparison of the trait text (paths kept, only whitespace / lifetimes / `crate::` removed)
                def keep(t): return re.sub(r'\s+', '', re.sub(r"'\w+\s*", '', (t or '').replace('crate::', '')))
                c2 = [f for f in cands if keep(P.impl_info(f)['trait']) == keep(trait)]
                if len(c2) == 1: cands = c2
            if len(cands) > 1:
                # module-aware comparison of every path inside the trait's generic arguments
                def paths(t): return re.findall(r'(?:\w+::)*\w+', re.sub(r"'\w+", '', t or ''))
                def modcompat(rq, im, impl_mod):
                    rq = [x for x in rq.split('::') if x != 'crate']; im = [x for x in im.split('::') if x != 'crate']
                    if rq[-1] != im[-1]: return False
                    rm, mm = rq[:-1], im[:-1]
                    if not mm and im[-1][:1].isupper() and im[-1] not in ('Vec', 'Option', 'String', 'Box', 'Result', 'Self'): mm = impl_mod
                    if not rm or not mm: return True
                    k = min(len(rm), len(mm))
                    return rm[-k:] == mm[-k:] or rm[:k] == mm[:k]
                def tmatch(f):
                    it = P.impl_info(f)['trait'] or ''
                    a, b = paths(trait), paths(it)
                    if len(a) != len(b): return False
                    im = f.name.split('::<impl')[0].split('::') if '::<impl' in f.name else []
                    return all(modcompat(x, y, im) for x, y in zip(a, b))
                c2 = [f for f in cands if tmatch(f)]
                if len(c2) >= 1: cands = c2
            if len(cands) > 1:
                # full textual comparison of trait args
                c2 = [f for f in cands if self._impl_matches(P.impl_info(f), selfty, trait)]
                if c2: cands = c2
            if len(cands) == 1: return cands[0]
            if len(cands) > 1: raise Unsupported('ambiguous impl for ' + callee + ': ' + ', '.join(f.name for f in cands[:4]))
            return None
        c, crate = self._norm_path(c, crate)
        if c in P.fns:
            cands = self._pick(P.fns[c], crate)
            if len(cands) == 1: return cands[0]
        # suffix match on plain paths (module prefixes may be abbreviated or extended)
        parts = c.split('::')
        if len(parts) >= 2:
            meth = parts[-1]; ty = parts[-2]
            cands = []
            for f in P.methods.get(meth, []):
                info = P.impl_info(f)
                if info and info['trait'] is None and info['self'] and last_seg(info['self']) == ty: cands.append(f)
            cands = self._pick(cands, crate)
            if len(cands) > 1:
                mod = '::'.join(parts[:-2])
                c2 = [f for f in cands if mod and (f.name.startswith(mod + '::'))]
                if len(c2) >= 1: cands = c2
            if len(cands) > 1:
                # same type, several inherent impl blocks defining the same name cannot happen; differing module
                raise Unsupported('ambiguous inherent ' + callee + ': ' + ', '.join(f.name for f in cands[:4]))
            if len(cands) == 1: return cands[0]
            # macro-generated impls (ast_node!): all share the macro's span; tell apart by signature
            cands = [f for f in P.methods.get(meth, []) if '<impl at' in f.name and (P.impl_info(f) or {}).get('trait') is None and
                     (re.search(r'\b' + re.escape(ty) + r'\b', f.ret or '') or (f.argtypes and re.search(r'\b' + re.escape(ty) + r'\b', f.argtypes[0])))]
            cands = self._pick(cands, crate)
            if len(cands) > 1:
                mod = '::'.join(parts[:-2])
                c2 = [f for f in cands if mod and (f.name.startswith(mod + '::'))]
                if len(c2) >= 1: cands = c2
            if len(cands) > 1:
                c2 = [f for f in cands if f.argtypes and last_seg(f.argtypes[0]) == ty]
                if len(c2) >= 1: cands = c2
            if len(cands) == 1: return cands[0]
            if len(cands) > 1: raise Unsupported('ambiguous(sig) ' + callee)
        # free function by suffix
        cands = [f for f in P.methods.get(parts[-1], []) if f.name == c or f.name.endswith('::' + c) or c.endswith('::' + f.name)]
        cands = self._pick(cands, crate)
        if len(cands) == 1: return cands[0]
        return None

    def _impl_matches(self, info, selfty, trait):
        def norm(t): return re.sub(r'\s+', '', re.sub(r"'\w+", '', re.sub(r'\b(?:\w+::)+', '', t)))
        return norm(info['trait'] or '') == norm(trait) and norm(info['self'] or '') == norm(selfty)

    # ----- places ---------------------------------------------------------------
    def lval(self, fr, place):
        local, proj = place
        root = fr.locals; path = [local]
        for p in proj:
            k = p[0]
            if k == 'deref':
                v = self.read(root, path)
                if isinstance(v, Ref): root, path = v.root, list(v.path)
                elif isinstance(v, BoxV): root, path = v.slots, [0]
                elif v is None: raise Unsupported('deref of an uninitialised value in %s' % fr.fn.name)
                else: pass     # the model collapsed a reference-to-reference earlier (e.g. Clone of `&&T`): a deref of a plain value is the value
            elif k == 'field': path = path + [p[1]]
            elif k == 'downcast': pass
            elif k == 'index':
                i = fr.locals[p[1]]
                if is_sym(i): raise Unsupported('symbolic index')
                path = path + [i]
            elif k == 'constindex':
                if p[2]:
                    cont = self.read(root, path)
                    path = path + [len(cont.slots) - p[1]]
                else: path = path + [p[1]]
            else: raise Unsupported('projection ' + k)
        return root, path

    def read(self, root, path):
        v = root[path[0]]
        for k in path[1:]:
            if isinstance(v, BoxV): return Ref(v.slots, [0])   # Box -> Unique -> NonNull projections: pointer to the cell
            while isinstance(v, Ref): v = self.read(v.root, v.path)
            v = v.slots[k]
        return v

    def write(self, root, path, val):
        if len(path) == 1: root[path[0]] = val; return
        v = root[path[0]]
        if v is None: root[path[0]] = val; return   # MaybeUninit wrapper projections collapse onto the cell
        for k in path[1:-1]:
            while isinstance(v, Ref): v = self.read(v.root, v.path)
            v = v.slots[k]
        while isinstance(v, Ref): v = self.read(v.root, v.path)
        if isinstance(v, BoxV):
            v.slots[0] = val; return
        v.slots[path[-1]] = val

    def cp(self, v):
        if isinstance(v, Agg): return Agg(v.ty, [self.cp(x) for x in v.slots])
        if isinstance(v, EnumV): return EnumV(v.ty, v.variant, [self.cp(x) for x in v.slots])
        if isinstance(v, Closure): return Closure(v.fn, [self.cp(x) for x in v.slots])
        return v

    def deref(self, v):
        while isinstance(v, Ref): v = self.read(v.root, v.path)
        return v

    def deref1(self, v):
        """follow references but stop at the last Ref (returns the Ref whose target is not a Ref)"""
        r = v
        while isinstance(r, Ref):
            nxt = self.read(r.root, r.path)
            if not isinstance(nxt, Ref): return r
            r = nxt
        return r

    def set_ref(self, r, val):
        r = self.deref1(r)
        self.write(r.root, r.path, val)

    def operand(self, fr, op):
        k = op[0]
        if k == 'place':
            root, path = self.lval(fr, op[1])
            try: v = self.read(root, path)
            except (AttributeError, IndexError, TypeError) as e:
                raise Unsupported('read %r in %s: %s' % (op[1], fr.fn.name, e))
            if op[2] == 'copy': return self.cp(v)
            return v
        if k == 'const': return self.const(fr, op[1])
        if k == 'fnitem': return FnItem(op[1], fr.fn.crate, fr.subst)
        raise Unsupported(str(op))

    def closure_by_name(self, crate, name):
        l = [f for f in self.prog.fns.get(name, []) if f.crate == crate]
        if len(l) != 1: raise Unsupported('closure %s not found' % name)
        return l[0]

    def closure_fn(self, crate, span, index=None):
        lst = self.prog.byclosure.get((crate, span))
        if not lst:
            for (c, s), l in self.prog.byclosure.items():
                if s == span: lst = l; break
        if not lst: raise Unsupported('closure body not found: ' + span)
        if len(lst) > 1: raise Unsupported('ambiguous closure span ' + span)
        return lst[0]

    _LIT = {}
    _INT_RE = re.compile(r'(-?\d+)_(?:[ui](?:8|16|32|64|128|size))')

    def const(self, fr, c):
        v = self._LIT.get(c)
        if v is not None: return v
        m = self._INT_RE.fullmatch(c)
        if m:
            v = int(m.group(1)); self._LIT[c] = v; return v
        if c == 'true': return True
        if c == 'false': return False
        if c == '()': return UNIT
        if c == '[]': return Agg('array', [])
        if c.startswith('"'):
            v = mkstr(unescape(c[1:-1])); self._LIT[c] = v; return v
        if c.startswith('b"'): return Agg('bytes', [ord(x) for x in unescape(c[2:-1])])
        if c.startswith("'"):
            return ord(unescape(c[1:-1]))
        m = re.fullmatch(r'(-?[\d.]+(?:[eE][-+]?\d+)?)f(32|64)', c)
        if m: raise Unsupported('float constant')
        if c.startswith('ZeroSized: '):
            t = c[11:]
            m = re.match(r'^\{closure@([^}]*)\}$', t)
            if m: return Closure(self.closure_fn(fr.fn.crate, m.group(1)), [])
            if t.startswith('{closure#'): return Closure(self.closure_by_name(fr.fn.crate, t[9:-1]), [])
            m = re.match(r'^fn\(.*\{(.+)\}$', t, re.S)
            if m: return FnItem(m.group(1), fr.fn.crate, fr.subst)
            return UNIT
        if c.endswith(']') and '::promoted[' in c:
            idx = int(c.rsplit('::promoted[', 1)[1][:-1])
            owner = fr.fn
            while owner.owner is not None: owner = owner.owner
            if idx in fr.fn.promoted: return self.run_fn(fr.fn.promoted[idx], [], fr.subst)
            if idx in owner.promoted: return self.run_fn(owner.promoted[idx], [], fr.subst)
            raise Unsupported('promoted const ' + c)
        # enum unit variants / named constants
        cs = strip_generics(c)
        m = re.match(r'^(.*)::(\w+)\((.*)\)$', cs, re.S)
        if m and last_seg(m.group(1)) in STD_VARIANTS and m.group(2) in STD_VARIANTS[last_seg(m.group(1))]:
            inner = m.group(3).strip()
            payload = [self.const(fr, x if not x.startswith('const ') else x[6:]) for x in split_top(inner)] if inner else []
            return EnumV(last_seg(m.group(1)), m.group(2), payload)
        if re.fullmatch(r'(?:\w+::)*\w+', cs) and cs.split('::')[-1] in ('Error', 'ParseError') and cs.startswith(('std::fmt', 'core::fmt')):
            return Agg('Error', [])
        m = re.match(r'^(.*)::(\w+)$', cs)
        if m:
            ty = last_seg(m.group(1))
            if ty in STD_VARIANTS and m.group(2) in STD_VARIANTS[ty]: return EnumV(ty, m.group(2), [])
            ek = self.prog.enum_lookup(m.group(1), fr.fn.crate)
            if ek is not None and any(v == m.group(2) for v, _ in self.prog.enums[ek]):
                return EnumV(ek, m.group(2), [])
        f = self.resolve_local(cs, fr.fn.crate)
        if f is not None and f.kind in ('const', 'static'):
            return self.run_fn(f, [], None)
        hk = self.models.get('const:' + cs)
        if hk is not None: return hk(self)
        raise Unsupported('const ' + c)

    def int_type_of(self, fr, place, k=None):
        local, proj = place
        if proj: return None
        t = fr.fn.ltypes.get(local)
        if t is None: return None
        if t.startswith('('):
            t = split_top(t[1:-1])[0]
        return t

    def rvalue(self, fr, rv, dest=None):
        k = rv[0]
        if k == 'use': return self.operand(fr, rv[1])
        if k == 'ref':
            root, path = self.lval(fr, rv[1]); return Ref(root, path)
        if k == 'binop':
            a = self.operand(fr, rv[2]); b = self.operand(fr, rv[3])
            return self.binop(rv[1], a, b, self.int_type_of(fr, dest) if dest else None)
        if k == 'unop':
            a = self.operand(fr, rv[2])
            if rv[1] == 'Not':
                if isinstance(a, bool): return not a
                if is_sym(a) and z3.is_bool(a): return z3.Not(a)
                raise Unsupported('bitwise not on integer')
            if rv[1] == 'Neg': return -a
            if rv[1] == 'PtrMetadata':
                v = self.deref(a)
                return self.length_of(v)
            raise Unsupported('unop ' + rv[1])
        if k == 'discr':
            root, path = self.lval(fr, rv[1]); v = self.read(root, path)
            return self.discriminant(v, fr)
        if k == 'tuple': return Agg('tuple', [self.operand(fr, o) for o in rv[1]])
        if k == 'array': return Agg('array', [self.operand(fr, o) for o in rv[1]])
        if k == 'repeat':
            v = self.operand(fr, rv[1]); n = int(re.match(r'(?:const )?(\d+)', rv[2]).group(1))
            return Agg('array', [self.cp(v) for _ in range(n)])
        if k == 'struct':
            name = rv[1]
            vals = [self.operand(fr, o) for (_, o) in rv[2]]
            m = re.match(r'^\{closure@([^}]*)\}$', name)
            if m: return Closure(self.closure_fn(fr.fn.crate, m.group(1)), vals)
            if name.startswith('{closure#'): return Closure(self.closure_by_name(fr.fn.crate, name[9:-1]), vals)
            sname = strip_generics(name)
            # enum struct-variant?  Path::Variant { .. }
            segs = sname.split('::')
            if len(segs) >= 2:
                ek = self.enum_key('::'.join(segs[:-1]), fr.fn.crate)
                if ek is not None and self.has_variant(ek, segs[-1]): return EnumV(ek, segs[-1], vals)
            return Agg(last_seg(sname), vals)
        if k == 'variant':
            path = strip_generics(rv[1]); segs = path.split('::')
            vals = [self.operand(fr, o) for o in rv[2]]
            if len(segs) == 1 and segs[0] in BARE_VARIANTS:
                # a bare std variant: the enum is told by the destination's declared type when ambiguous (Equal: Ordering)
                return EnumV(BARE_VARIANTS[segs[0]], segs[0], vals)
            if len(segs) >= 2:
                ek = self.enum_key('::'.join(segs[:-1]), fr.fn.crate)
                if ek is not None and self.has_variant(ek, segs[-1]): return EnumV(ek, segs[-1], vals)
            return Agg(last_seg(path), vals)   # tuple struct / unit struct
        if k == 'cast':
            v = self.operand(fr, rv[1])
            kind = rv[3]; ty = rv[2]
            if kind == 'Transmute' and (isinstance(v, int) or is_sym(v)) and not isinstance(v, bool):
                ek = self.prog.enum_lookup(ty, fr.fn.crate) if ty not in INT_RANGE else None
                if ek is not None:
                    if isinstance(v, int):
                        for name, d in self.prog.enums[ek]:
                            if d == v: return EnumV(ek, name, [])
                        raise Unsupported('transmute of %d to %s: no such discriminant (undefined behaviour)' % (v, ty))
                    ds = [d for _, d in self.prog.enums[ek]]
                    if self.check(z3.Not(z3.Or(*[v == d for d in ds]))):
                        raise Unsupported('transmute of a symbolic integer to %s may be out of range' % ty)
                    return EnumV(ek, v, [])
                return v
            if kind.startswith('PointerCoercion') or kind in ('Transmute', 'PtrToPtr', 'FnPtrToPtr', 'PointerExposeProvenance'):
                return v
            if kind == 'IntToInt':
                if isinstance(v, EnumV): v = self.discriminant(v, fr)
                if isinstance(v, bool): return int(v)
                if ty in INT_RANGE:
                    lo, hi = INT_RANGE[ty]
                    if isinstance(v, int):
                        if lo <= v <= hi: return v
                        span = hi - lo + 1
                        return ((v - lo) % span) + lo
                    if is_sym(v) and z3.is_bool(v): return z3.If(v, 1, 0)
                    # symbolic: value preserving iff in range; otherwise not encoded
                    if self.check(z3.Or(v < lo, v > hi)): raise Unsupported('truncating cast of symbolic integer to ' + ty)
                    return v
                return v
            raise Unsupported('cast ' + kind)
        if k == 'len':
            root, path = self.lval(fr, rv[1]); v = self.deref(self.read(root, path))
            return self.length_of(v)
        if k == 'shallowbox':
            return BoxV(None)
        raise Unsupported('rvalue ' + k)

    def length_of(self, v):
        if isinstance(v, Str): return ssum([utf8w(c) for c in v.chars])
        if hasattr(v, 'slots'): return len(v.slots)
        raise Unsupported('len of ' + type(v).__name__)

    def enum_key(self, path, crate):
        ty = last_seg(path)
        if ty in STD_VARIANTS and '::' not in strip_generics(path).replace('std::', '').replace('core::', '').replace('option::', '').replace('result::', '').replace('ops::', '').replace('cmp::', '').replace('borrow::', '').replace('rowan::', ''):
            return ty
        ek = self.prog.enum_lookup(path, crate)
        if ek is None and ty in STD_VARIANTS: return ty
        return ek

    def has_variant(self, ek, name):
        if ek in STD_VARIANTS: return name in STD_VARIANTS[ek]
        return any(v == name for v, _ in self.prog.enums[ek])

    def variant_index(self, ek, name):
        if ek in STD_VARIANTS: return STD_VARIANTS[ek].index(name)
        for i, (v, _) in enumerate(self.prog.enums[ek]):
            if v == name: return i
        raise Unsupported('variant %s of %s' % (name, ek))

    def discriminant(self, v, fr=None):
        v = self.deref(v)
        if isinstance(v, EnumV):
            if is_sym(v.variant): return v.variant
            if (v.ty, v.variant) in STD_DISCR: return STD_DISCR[(v.ty, v.variant)]
            if v.ty in STD_VARIANTS: return STD_VARIANTS[v.ty].index(v.variant)
            if v.ty in self.prog.enums:
                for name, d in self.prog.enums[v.ty]:
                    if name == v.variant: return d
            raise Unsupported('discriminant of %r' % (v,))
        if isinstance(v, (Agg, Opaque)): return 0
        raise Unsupported('discriminant of %s in %s' % (type(v).__name__, fr.fn.name if fr else '?'))

    def binop(self, op, a, b, ty=None):
        if isinstance(a, EnumV): a = self.discriminant(a)
        if isinstance(b, EnumV): b = self.discriminant(b)
        sym = is_sym(a) or is_sym(b)
        if op in ('Eq', 'Ne'):
            if isinstance(a, Unit) and isinstance(b, Unit): return op == 'Eq'
            if sym:
                if isinstance(a, bool): a = z3.BoolVal(a)
                if isinstance(b, bool): b = z3.BoolVal(b)
                r = (a == b)
                return r if op == 'Eq' else z3.Not(r)
            r = (a == b)
            return r if op == 'Eq' else (not r)
        if op == 'Lt': return a < b
        if op == 'Le': return a <= b
        if op == 'Gt': return a > b
        if op == 'Ge': return a >= b
        if op in ('Add', 'AddUnchecked'): return a + b
        if op in ('Sub', 'SubUnchecked'): return a - b
        if op in ('Mul', 'MulUnchecked'):
            if is_sym(a) and is_sym(b): raise Unsupported('symbolic * symbolic')
            return a * b
        if op in ('AddWithOverflow', 'SubWithOverflow', 'MulWithOverflow'):
            if op[0] == 'A': r = a + b
            elif op[0] == 'S': r = a - b
            else:
                if is_sym(a) and is_sym(b): raise Unsupported('symbolic * symbolic')
                r = a * b
            lo, hi = INT_RANGE.get(ty or 'usize', INT_RANGE['usize'])
            if is_sym(r): ov = z3.Or(r < lo, r > hi)
            else: ov = r < lo or r > hi
            return Agg('tuple', [r, ov])
        if op in ('Div', 'Rem'):
            if sym: raise Unsupported('symbolic division')
            if b == 0: raise Panic('division by zero')
            q = abs(a) // abs(b) * (1 if (a >= 0) == (b >= 0) else -1)
            return q if op == 'Div' else a - q * b
        if op in ('BitAnd', 'BitOr', 'BitXor'):
            if isinstance(a, bool) and isinstance(b, bool):
                return (a and b) if op == 'BitAnd' else (a or b) if op == 'BitOr' else (a != b)
            if sym and (isinstance(a, bool) or z3.is_bool(a)) and (isinstance(b, bool) or z3.is_bool(b)):
                if op == 'BitAnd': return b_and(a, b)
                if op == 'BitOr': return b_or(a, b)
                return z3.Xor(a if is_sym(a) else z3.BoolVal(a), b if is_sym(b) else z3.BoolVal(b))
            if not sym:
                return (a & b) if op == 'BitAnd' else (a | b) if op == 'BitOr' else (a ^ b)
            raise Unsupported('symbolic bit operation')
        if op in ('Shl', 'Shr', 'ShlUnchecked', 'ShrUnchecked'):
            if sym: raise Unsupported('symbolic shift')
            return (a << b) if op.startswith('Shl') else (a >> b)
        if op == 'Cmp':
            lt = self.branch(a < b)
            if lt: return EnumV('Ordering', 'Less')
            return EnumV('Ordering', 'Equal') if self.branch(s_eq(a, b)) else EnumV('Ordering', 'Greater')
        raise Unsupported('binop ' + op)

    # ----- execution ------------------------------------------------------------
    def run_fn(self, fn, args, subst=None):
        u = self.used_fns
        if fn not in u: u[fn] = 1
        fr = Frame(fn, subst)
        loc = fr.locals
        if len(args) != fn.nargs:
            # closures called with a tupled argument list ("rust-call" ABI) are untupled by the callers in this file
            raise Unsupported('arity mismatch calling %s: %d vs %d' % (fn.name, len(args), fn.nargs))
        for i, a in enumerate(args): loc[i+1] = a
        # capture-less closures are zero-sized: MIR never assigns their local before borrowing it
        zc = self._zst_closures.get(fn)
        if zc is None:
            zc = []
            for i, t in fn.ltypes.items():
                m = re.match(r'^\{closure@([^}]*)\}$', t.strip()) if isinstance(t, str) else None
                if m and i > fn.nargs: zc.append((i, m.group(1)))
            self._zst_closures[fn] = zc
        for i, span in zc:
            try: loc[i] = Closure(self.closure_fn(fn.crate, span), [])
            except Unsupported: pass
        self.depth += 1
        if self.depth > self.max_depth: self.max_depth = self.depth
        if self.depth > 400: raise Panic('stack overflow (recursion depth > 400)')
        b = 0
        blocks = fn.blocks
        try:
            while True:
                self.fuel += 1
                if self.fuel > self.fuel_limit: raise Fuel()
                for st in blocks[b]:
                    k = st[0]
                    if k == 'assign':
                        v = self.rvalue(fr, st[2], st[1])
                        pl = st[1]
                        if not pl[1]: loc[pl[0]] = v
                        else:
                            root, path = self.lval(fr, pl); self.write(root, path, v)
                    elif k == 'nop': pass
                    elif k == 'goto': b = st[1]; break
                    elif k == 'return':
                        return loc[0] if loc[0] is not None else UNIT
                    elif k == 'drop': b = st[2]; break
                    elif k == 'switch':
                        v = self.operand(fr, st[1])
                        if isinstance(v, bool): v = int(v)
                        tgt = None
                        if is_sym(v):
                            if z3.is_bool(v):
                                t = self.branch(v)
                                for (val, bb_) in st[2]:
                                    if (val != 0) == t: tgt = bb_
                            else:
                                for (val, bb_) in st[2]:
                                    if self.branch(v == val): tgt = bb_; break
                        else:
                            for (val, bb_) in st[2]:
                                if v == val: tgt = bb_; break
                        b = tgt if tgt is not None else st[3]
                        if b is None: raise Unsupported('switch without target')
                        break
                    elif k == 'assert':
                        c = self.operand(fr, st[2])
                        if st[1]: c = b_not(c)
                        if not self.branch(c): raise Panic('assert failed: ' + st[3][:80], fn.name)
                        b = st[4]; break
                    elif k == 'call':
                        callee = st[2]
                        args_ = [self.operand(fr, a) for a in st[3]]
                        if isinstance(callee, tuple):
                            fv = self.operand(fr, callee)
                            ret = self.call_value(fv, args_)
                        else:
                            ret = self.call(fr, callee, args_)
                        if st[4] is None: raise Panic('diverging call returned: ' + str(callee)[:80], fn.name)
                        pl = st[1]
                        if not pl[1]: loc[pl[0]] = ret
                        else:
                            root, path = self.lval(fr, pl); self.write(root, path, ret)
                        b = st[4]; break
                    elif k == 'setdiscr':
                        root, path = self.lval(fr, st[1]); v = self.read(root, path)
                        if isinstance(v, EnumV):
                            names = STD_VARIANTS.get(v.ty) or [n for n, _ in self.prog.enums[v.ty]]
                            v.variant = names[st[2]]
                        else: raise Unsupported('SetDiscriminant on ' + type(v).__name__)
                    elif k == 'unreachable': raise Unsupported('reached `unreachable` in ' + fn.name)
                    else: raise Unsupported('stmt ' + k)
                else:
                    raise Unsupported('block without terminator in ' + fn.name)
        finally:
            self.depth -= 1

    def call(self, fr, callee, args):
        crate = fr.fn.crate if fr is not None else None
        subst = fr.subst if fr is not None else None
        if subst:
            callee = self.apply_subst(callee, subst)
        key = (callee, crate)
        tgt = self.res_cache.get(('call',) + key)
        if tgt is None:
            tgt = self._resolve_call(callee, crate)
            self.res_cache[('call',) + key] = tgt
        kind, obj, c = tgt
        if kind == 'hook':
            h = self.hooks.get(c)
            if h is not None:
                r = h(self, c, args, callee)
                if r is not NotImplemented: return r
            kind, obj, c = self._resolve_call(callee, crate, nohook=True)
        if kind == 'model':
            self.used_models.add(c)
            self._call_crate = crate; self._call_subst = subst
            try:
                return obj(self, c, args, callee)
            except Unsupported as ex:
                if ' [in ' not in str(ex): raise Unsupported('%s [in %s <- %s]' % (ex, c[:120], fr.fn.name if fr is not None and hasattr(fr.fn, 'name') else '?'))
                raise
            except (AttributeError, IndexError, TypeError, KeyError) as ex:
                if os.environ.get('MIRSYM_DEBUG'): raise
                raise Unsupported('model error %s: %s [in %s <- %s]' % (type(ex).__name__, ex, c[:120], fr.fn.name if fr is not None and hasattr(fr.fn, 'name') else '?'))
        if kind == 'fn':
            return self.run_fn(obj, args, self.subst_for(obj, callee, subst))
        raise Unsupported('no body or model for ' + c)

    def _resolve_call(self, callee, crate, nohook=False):
        c = strip_generics(callee)
        if c.startswith(('str::<impl str>::', 'alloc::str::<impl str>::')): c = 'core::str::<impl str>::' + c.split('<impl str>::', 1)[1]
        elif c.startswith(('slice::<impl ', 'alloc::slice::<impl ')): c = 'core::slice::<impl ' + c.split('slice::<impl ', 1)[1]
        if not nohook and c in self.hooks: return ('hook', None, c)
        for pat, h in self.hook_patterns:
            if pat.match(c): return ('model', h, c)
        mdl = self.models.get(c)
        if mdl is not None: return ('model', mdl, c)
        f = self.resolve_local(callee, crate)
        if f is not None: return ('fn', f, c)
        for pat, m in MODEL_PATTERNS:
            if pat.match(c): return ('model', m, c)
        # constructors used as function values: Enum::Variant(..) / TupleStruct(..)
        segs = c.split('::')
        if len(segs) >= 2 and segs[-1][:1].isupper():
            ek = self.enum_key('::'.join(segs[:-1]), crate)
            if ek is not None and self.has_variant(ek, segs[-1]):
                v = segs[-1]
                return ('model', (lambda e, c_, a, raw, ek=ek, v=v: EnumV(ek, v, list(a))), c)
        if segs[-1][:1].isupper() and re.fullmatch(r'(?:\w+::)*\w+', c):
            name = segs[-1]
            if name in ('Some', 'Ok', 'Err'):
                ty = 'Option' if name == 'Some' else 'Result'
                return ('model', (lambda e, c_, a, raw, ty=ty, name=name: EnumV(ty, name, list(a))), c)
            return ('model', (lambda e, c_, a, raw, name=name: Agg(name, list(a))), c)
        return ('none', None, c)

    def prewarm(self, crates):
        """resolve every call site of the given crates once (before any fork), so that forked children share the cache"""
        class _Fr: pass
        n = 0
        for f in self.prog.all:
            if f.crate not in crates: continue
            for b, sts in f.blocks.items():
                t = sts[-1]
                if t[0] == 'call' and isinstance(t[2], str):
                    key = ('call', t[2], f.crate)
                    if key in self.res_cache: continue
                    try: tgt = self._resolve_call(t[2], f.crate)
                    except Unsupported: continue
                    self.res_cache[key] = tgt; n += 1
                    if tgt[0] == 'fn':
                        try: self.subst_for(tgt[1], t[2], None)
                        except Exception: pass
        return n

    def apply_subst(self, callee, subst):
        for k, v in subst.items():
            if k in callee:
                callee = re.sub(r'\b' + re.escape(k) + r'\b', v, callee)
        return callee

    def subst_for(self, fn, callee, outer):
        key = ('subst', fn, callee)
        r = self.res_cache.get(key, 0)
        if r == 0:
            r = self._subst_for(fn, callee, outer); self.res_cache[key] = r
        return r

    def _subst_for(self, fn, callee, outer):
        """bind the impl's type parameters from the call's trait arguments"""
        info = self.prog.impl_info(fn)
        if info and info['derive'] and info['trait'].split('::')[-1] in DERIVE_TRAITS:
            # impl<P: Deb822LikeParagraph> XDeb822Paragraph<P> for T   (generated by the derive)
            m = re.match(r'^<(.+) as [\w:]*?\w+<(.+)>>::\w+(?:::<.*>)?$', callee, re.S)
            if m: return {'P': m.group(2).strip()}
            return outer
        if not info or not info['params']: return None
        m = re.match(r'^<(.+) as (.+)>::\w+(?:::<.*>)?$', callee)
        if not m: return None
        sub = {}
        # match trait generic args positionally against the impl's trait text
        def targs(t):
            mm = re.match(r'^[^<]*<(.*)>$', t.strip())
            return split_top(mm.group(1)) if mm else []
        impl_t = targs(info['trait'] or ''); call_t = targs(m.group(2))
        for a, b in zip(impl_t, call_t):
            if a in info['params']: sub[a] = b
        if info['self'] in info['params']: sub[info['self']] = m.group(1)
        return sub or None

    def call_value(self, f, args):
        """call a closure / fn item value with an untupled argument list"""
        f = self.deref(f)
        if isinstance(f, Closure):
            a0 = f.fn.argtypes[0]
            env = Ref([f], [0]) if a0.startswith('&') else f
            return self.run_fn(f.fn, [env] + list(args))
        if isinstance(f, FnItem):
            crate = f.crate
            name = f.name
            if f.subst: name = self.apply_subst(name, f.subst)
            class _Fr: pass
            fr = _Fr(); fr.fn = _Fr(); fr.fn.crate = crate; fr.subst = None
            return self.call(fr, name, list(args))
        if isinstance(f, PyFn):
            return f.f(self, *args)
        if isinstance(f, Agg) and not f.slots and re.match(r'^[a-z_][A-Za-z0-9_:]*$', f.ty or ''):
            # a bare fn item that went through a promoted constant (`&format_field`): its name is all that is left
            class _Fr: pass
            fr = _Fr(); fr.fn = _Fr(); fr.fn.crate = getattr(self, '_promoted_crate', None) or getattr(self, '_call_crate', None); fr.subst = None
            crates = sorted({fn.crate for fn in self.prog.all})
            for crate in [c for c in [fr.fn.crate] if c] + [c for c in crates if c != fr.fn.crate]:
                fr.fn.crate = crate
                if self.resolve_local(f.ty, crate) is not None: return self.call(fr, f.ty, list(args))
            raise Unsupported('call of fn item %s: not found in any crate' % f.ty)
        raise Unsupported('call of ' + repr(f))

    def call_path(self, crate, callee, args):
        """harness entry: call a function by (crate, path as it would be written in that crate's MIR)"""
        class _Fr: pass
        fr = _Fr(); fr.fn = _Fr(); fr.fn.crate = crate; fr.subst = None
        return self.call(fr, callee, args)
