"""Exploration driver: enumerates all paths of a harness, decides the property's assertions with the solver
on every path, replays every path witness natively, writes evidence.

Two exploration modes share the engine:
  * re-execution (KLEE-style prefix replay) - used by the master to grow a frontier of decision prefixes;
  * fork mode - a worker replays one prefix and then explores the whole subtree below it with os.fork() at
    every two-sided decision (the child explores one side to completion and reports through a pipe, the parent
    then continues with the other side), so no work before a decision point is ever repeated.
"""
import json, os, sys, time, hashlib, re, traceback, random, pickle
import multiprocessing as mp
import z3
from . import mirdump, replay as replay_mod
from .engine import Engine, Program
from .values import *
from . import models_core, models_str, models_iter, models_fmt, models_rowan, models_ext, models_regex  # noqa: F401 (register models)

ROOT = os.path.dirname(os.path.dirname(os.path.abspath(__file__)))


class Harness:
    id = None
    op = None
    fuel = 20000
    level = 'model_checking'
    def cases(self, tier): raise NotImplementedError
    def run(self, e, case): raise NotImplementedError
    def request(self, case, witness):
        r = {'op': self.op}; r.update(witness); return r
    def oracle(self, case, witness, native): raise NotImplementedError
    def compare(self, case, pred, native): return []
    def nontrivial(self, case, witness): return True
    def coverage_keys(self, case, witness, native): return []
    assumptions = []
    oracle_leniency = []
    bounds = {}


# ---- concretisation ---------------------------------------------------------------------------
def conc(m, v):
    if v is None: return None
    if isinstance(v, bool): return v
    if isinstance(v, int): return v
    if isinstance(v, str): return v
    if isinstance(v, z3.ExprRef):
        r = m.eval(v, model_completion=True)
        if z3.is_bool(r): return z3.is_true(r)
        return r.as_long()
    if isinstance(v, Str): return ''.join(chr(conc(m, c)) for c in v.chars)
    if isinstance(v, (list, tuple)): return [conc(m, x) for x in v]
    if isinstance(v, dict): return {k: conc(m, x) for k, x in v.items()}
    if isinstance(v, EnumV):
        var = v.variant if not is_sym(v.variant) else conc(m, v.variant)
        return {'v': var, 'f': [conc(m, x) for x in v.slots]}
    if isinstance(v, (Agg, VecV)): return [conc(m, x) for x in v.slots]
    if isinstance(v, Unit): return None
    if isinstance(v, Opaque): return {'opaque': v.kind, 'p': conc(m, v.payload)}
    raise TypeError('cannot concretise %r' % type(v))


def input_terms(v, out):
    if isinstance(v, z3.ExprRef): out.append(v)
    elif isinstance(v, Str):
        for c in v.chars:
            if is_sym(c): out.append(c)
    elif isinstance(v, (list, tuple)):
        for x in v: input_terms(x, out)
    elif isinstance(v, dict):
        for x in v.values(): input_terms(x, out)
    elif isinstance(v, (Agg, VecV, EnumV)):
        if isinstance(v, EnumV) and is_sym(v.variant): out.append(v.variant)
        for x in v.slots: input_terms(x, out)


# ---- accumulator ----------------------------------------------------------------------------------
class Acc:
    SUMS = ('paths', 'queries', 'asserts', 'replayed', 'agree', 'branch_points', 'forks', 'native_timeouts', 'n_mismatch', 'extra_replays',
            'unexplored', 'child_crashes')
    def __init__(s):
        for k in s.SUMS: setattr(s, k, 0)
        s.kinds = {}; s.violations = {}; s.mismatches = []; s.unencoded = {}; s.samples = []; s.nontrivial = set(); s.coverage = {}
        s.fuel_max = 0; s.depth_max = 0
    def merge(s, o):
        for k in s.SUMS: setattr(s, k, getattr(s, k) + getattr(o, k))
        for k, v in o.kinds.items(): s.kinds[k] = s.kinds.get(k, 0) + v
        for k, v in o.unencoded.items(): s.unencoded[k] = s.unencoded.get(k, 0) + v
        for k, v in o.coverage.items(): s.coverage[k] = s.coverage.get(k, 0) + v
        for k, v in o.violations.items():
            if k in s.violations: s.violations[k]['count'] += v['count']
            else: s.violations[k] = v
        s.nontrivial |= o.nontrivial
        if len(s.samples) < 6: s.samples.extend(o.samples[:6 - len(s.samples)])
        if len(s.mismatches) < 6: s.mismatches.extend(o.mismatches[:6 - len(s.mismatches)])
        s.fuel_max = max(s.fuel_max, o.fuel_max); s.depth_max = max(s.depth_max, o.depth_max)
    def add_violation(s, v):
        k = v['cls']
        if k in s.violations: s.violations[k]['count'] += 1
        else: v['count'] = 1; s.violations[k] = v


# ---- per-process state --------------------------------------------------------------------------
G = {}


def worker_init(mirfiles, replay_path, seed, harness_mod, strict):
    import importlib
    prog = Program(mirfiles, mirdump.REPO)
    e = Engine(prog); e.seed = seed
    G['e'] = e; G['prog'] = prog
    G['replay'] = replay_mod.Replay(replay_path)
    e.native = G['replay']
    G['mod'] = importlib.import_module(harness_mod)
    G['harness'] = G['mod'].HARNESS
    G['strict'] = strict
    if hasattr(G['mod'], 'install'): G['mod'].install(e)
    e.prewarm(getattr(G['harness'], 'crates', ('deb822',)))


def run_one(e, h, case, prefix):
    """execute one path (in fork mode: this process' path; other paths run in forked children); returns record"""
    e.start_path(prefix)
    e.inputs = {}
    e.fuel_limit = h.fuel if not callable(h.fuel) else h.fuel(case)
    rec = {'kind': 'ok', 'msg': '', 'queries': 0, 'asserts': 0}
    pred = None; viol_model = None
    try:
        out = h.run(e, case)
        pred = out.get('pred')
        for label, cond in out.get('checks', []):
            rec['asserts'] += 1
            if cond is True: continue
            if cond is False:
                rec['kind'] = 'pred-violation'; rec['msg'] = label; break
            rec['queries'] += 1
            m = e.check(z3.Not(cond), want_model=True)
            if m is not None:
                rec['kind'] = 'pred-violation'; rec['msg'] = label; viol_model = m; break
    except Panic as ex:
        rec['kind'] = 'panic'; rec['msg'] = '%s @ %s' % (ex, ex.where)
    except Fuel:
        rec['kind'] = 'fuel'
    except Infeasible:
        rec['kind'] = 'infeasible'
    except Unsupported as ex:
        rec['kind'] = 'unencoded'; rec['msg'] = str(ex)[:300]
    except RecursionError:
        rec['kind'] = 'panic'; rec['msg'] = 'stack overflow (python recursion limit)'
    rec['alts'] = e.new_alternatives
    rec['decisions'] = len(e.decisions); rec['forks'] = e.forks
    rec['fuel_used'] = e.fuel
    if rec['kind'] == 'infeasible': return rec, None, None
    try:
        m = viol_model if viol_model is not None else e.get_model()
    except Infeasible:
        rec['kind'] = 'infeasible'; return rec, None, None
    witness = conc(m, e.inputs)
    pc = None
    if pred is not None and rec['kind'] == 'ok':
        try: pc = conc(m, pred)
        except Exception as ex:
            rec['kind'] = 'unencoded'; rec['msg'] = 'prediction not concretisable: %s' % ex
    return rec, witness, pc


def more_witnesses(e, k):
    """up to k further distinct models of the current PC (over the input terms)"""
    terms = []; input_terms(e.inputs, terms)
    out = []
    if not terms: return out
    e.sync()
    e.solver.push()
    try:
        for _ in range(k):
            if e.solver.check() != z3.sat: break
            m = e.solver.model()
            out.append(conc(m, e.inputs))
            e.solver.add(z3.Or(*[t != m.eval(t, model_completion=True) for t in terms]))
    finally:
        e.solver.pop()
    return out


def judge_path(acc, e, h, rp, case, rec, witness, pc):
    """native replay + oracle + comparison for one finished path"""
    acc.paths += 1
    acc.kinds[rec['kind']] = acc.kinds.get(rec['kind'], 0) + 1
    acc.queries += rec['queries']; acc.asserts += rec['asserts']
    acc.branch_points += rec['decisions']; acc.forks += rec['forks']
    acc.fuel_max = max(acc.fuel_max, rec['fuel_used']); acc.depth_max = max(acc.depth_max, e.max_depth)
    if witness is None: return
    wkey = hashlib.sha1(json.dumps(witness, sort_keys=True).encode()).hexdigest()[:16]
    req = h.request(case, witness)
    native = rp.call(req)
    acc.replayed += 1
    if native.get('timeout'): acc.native_timeouts += 1
    viols = h.oracle(case, witness, native)
    if h.nontrivial(case, witness): acc.nontrivial.add(wkey)
    for ck in h.coverage_keys(case, witness, native): acc.coverage[ck] = acc.coverage.get(ck, 0) + 1
    if viols:
        for cls, msg in viols:
            acc.add_violation({'cls': cls, 'msg': msg, 'case': case, 'witness': witness, 'request': req, 'native': native,
                               'predicted': rec['kind'], 'pmsg': rec['msg']})
        if rec['kind'] == 'ok':
            acc.n_mismatch += 1
            if len(acc.mismatches) < 6: acc.mismatches.append({'why': 'interpreter predicted no violation, native run violates', 'witness': witness, 'viol': viols[0][1][:300]})
    else:
        mismatch = None
        if rec['kind'] in ('pred-violation', 'panic'):
            mismatch = 'interpreter predicted %s (%s), native run satisfies the oracle' % (rec['kind'], rec['msg'])
        elif rec['kind'] == 'ok' and pc is not None:
            diffs = h.compare(case, pc, native)
            if diffs: mismatch = 'prediction differs from native: ' + '; '.join(diffs[:3])
        if mismatch:
            acc.n_mismatch += 1
            if len(acc.mismatches) < 6: acc.mismatches.append({'why': mismatch[:400], 'witness': witness})
        elif rec['kind'] == 'ok':
            acc.agree += 1
        if rec['kind'] == 'unencoded':
            acc.unencoded[rec['msg']] = acc.unencoded.get(rec['msg'], 0) + 1
        if rec['kind'] == 'unencoded' or mismatch:
            # solver-directed concrete testing of this path: more models of its PC, judged natively
            for w2 in more_witnesses(e, 8):
                req2 = h.request(case, w2); n2 = rp.call(req2); acc.extra_replays += 1
                for cls, msg in h.oracle(case, w2, n2):
                    acc.add_violation({'cls': cls, 'msg': msg, 'case': case, 'witness': w2, 'request': req2, 'native': n2,
                                       'predicted': 'unencoded', 'pmsg': rec['msg']})
    if len(acc.samples) < 3 and wkey[0] == '0' and wkey[1] in '0123':
        pcs = ''
        try: pcs = z3.And(*e.pc).sexpr()[:400] if e.pc else 'true'
        except Exception: pass
        acc.samples.append({'case': case, 'witness': witness, 'outcome': rec['kind'], 'path_condition_smt2': pcs, 'native_ok': not viols})


def safe_run(e, h, case, prefix):
    try:
        return run_one(e, h, case, prefix)
    except Exception as ex:   # engine bug: never silently dropped
        if os.environ.get('MIRSYM_DEBUG'): traceback.print_exc()
        rec = {'kind': 'unencoded', 'msg': 'engine error: %s: %s' % (type(ex).__name__, str(ex)[:200]), 'alts': e.new_alternatives,
               'decisions': len(e.decisions), 'forks': e.forks, 'fuel_used': e.fuel, 'queries': 0, 'asserts': 0}
        witness = None
        try:
            m = e.get_model(); witness = conc(m, e.inputs)
        except Exception: pass
        return rec, witness, None


def finish_task(e, acc, t0, case_idx, leftover, mode='chunk'):
    return {'mode': mode, 'case_idx': case_idx, 'acc': acc, 'leftover': leftover, 'wall': time.time() - t0,
            'solver_calls': e.stats['solver_calls'], 'solver_time': e.stats['solver_time'],
            'fns': {f.crate + '::' + f.name: f.sha for f in e.used_fns}, 'models': sorted(e.used_models)}


def explore_chunk(args):
    """re-execution mode: explore up to `budget` paths below the given prefixes, return the unexplored prefixes"""
    case_idx, case, prefixes, budget, deadline = args
    e = G['e']; h = G['harness']; rp = G['replay']
    e.fork_mode = False
    t0 = time.time(); sc0, st0 = e.stats['solver_calls'], e.stats['solver_time']
    acc = Acc()
    work = list(prefixes)
    while work and acc.paths < budget:
        prefix = work.pop()
        rec, witness, pc = safe_run(e, h, case, prefix)
        work.extend(rec['alts'])
        if rec['kind'] == 'infeasible': continue
        judge_path(acc, e, h, rp, case, rec, witness, pc)
    r = finish_task(e, acc, t0, case_idx, work)
    r['solver_calls'] -= sc0; r['solver_time'] -= st0
    return r


def explore_subtree(args):
    """fork mode: explore everything below one prefix"""
    case_idx, case, prefix, deadline = args
    e = G['e']; h = G['harness']; rp = G['replay']
    t0 = time.time(); sc0, st0 = e.stats['solver_calls'], e.stats['solver_time']
    e.fork_mode = True; e.is_child = False; e.collected = []; e.deadline = deadline; e.unexplored = 0; e.child_crashes = 0
    e.leftover_alts = []; e.slice_deadline = t0 + float(os.environ.get('VERIF_SLICE', '8'))
    acc = Acc()
    try:
        rec, witness, pc = safe_run(e, h, case, prefix)
        if rec['kind'] != 'infeasible':
            judge_path(acc, e, h, rp, case, rec, witness, pc)
    except BaseException as ex:
        if not e.is_child: raise
        acc.unencoded['worker exception: %r' % (ex,)] = 1
    finally:
        e.fork_mode = False
        for c in e.collected: acc.merge(c['acc'])
        acc.unexplored += e.unexplored; acc.child_crashes += e.child_crashes
        left = list(e.leftover_alts)
        for c in e.collected: left.extend(c['leftover'])
        if e.is_child:
            r = finish_task(e, acc, t0, case_idx, left)
            for c in e.collected:
                r['solver_calls'] += c['solver_calls']; r['solver_time'] += c['solver_time']; r['fns'].update(c['fns']); r['models'] = sorted(set(r['models']) | set(c['models']))
            r['solver_calls'] -= e.fork_sc0; r['solver_time'] -= e.fork_st0
            try:
                data = pickle.dumps(r)
                off = 0
                while off < len(data): off += os.write(e.out_fd, data[off:off + (1 << 16)])
            finally:
                os._exit(0)
    r = finish_task(e, acc, t0, case_idx, left, 'subtree')
    r['solver_calls'] -= sc0; r['solver_time'] -= st0
    for c in e.collected:
        r['solver_calls'] += c['solver_calls']; r['solver_time'] += c['solver_time']; r['fns'].update(c['fns']); r['models'] = sorted(set(r['models']) | set(c['models']))
    e.collected = []
    return r


# ---- master -----------------------------------------------------------------------------------------
def load_known():
    p = os.path.join(ROOT, 'known_findings.json')
    if not os.path.exists(p): return []
    return json.load(open(p))


def run_check(harness_mod, tier, seed, jobs=None, wall_budget=None):
    import importlib
    t0 = time.time()
    mod = importlib.import_module(harness_mod)
    h = mod.HARNESS
    strict = bool(os.environ.get('VERIF_STRICT'))
    try:
        mirfiles, th, dump_s = mirdump.dump_all()
    except RuntimeError as ex:
        print('INCONCLUSIVE: /repo does not build: ' + str(ex)[-2000:], file=sys.stderr); return 2
    try:
        rpath = replay_mod.build()
    except RuntimeError as ex:
        print('INCONCLUSIVE: replay crate does not build against /repo: ' + str(ex)[-3000:], file=sys.stderr); return 2
    setup_s = time.time() - t0
    try:
        prog = Program(mirfiles, mirdump.REPO)
    except Exception as ex:
        print('INCONCLUSIVE: MIR dump not parseable: %s' % ex, file=sys.stderr); return 2
    jobs = jobs or int(os.environ.get('VERIF_JOBS', '16'))
    cases = h.cases(tier)
    budget = wall_budget or float(os.environ.get('VERIF_WALL', {'quick': 200, 'thorough': 1200}[tier]))
    deadline = t0 + budget
    use_fork = not os.environ.get('VERIF_NOFORK')
    ctx = mp.get_context('fork')
    pool = ctx.Pool(jobs, initializer=worker_init, initargs=(mirfiles, rpath, seed, harness_mod, strict))
    rng = random.Random(seed)
    agg = Acc()
    meta = {'solver_calls': 0, 'solver_time': 0.0, 'fns': {}, 'models': set(), 'per_case': {}}
    # queue items: ('chunk', ci, prefixes) or ('subtree', ci, prefix)
    queue = [('chunk', i, [[]]) for i in range(len(cases))]
    queue.sort(key=lambda t: cases[t[1]].get('order', 0))
    frontier_target = jobs * 40
    inflight = 0; exhausted = True
    results = []
    def cb(r): results.append(r)
    def ecb(ex): results.append({'error': repr(ex)})
    errors = []
    pending_prefixes = {i: [] for i in range(len(cases))}   # per case: frontier being grown
    grown = {i: 0 for i in range(len(cases))}
    while queue or inflight:
        while queue and inflight < jobs + 2:
            if time.time() > deadline:
                break
            kind, ci, payload = queue.pop(0)
            if kind == 'chunk':
                pool.apply_async(explore_chunk, ((ci, cases[ci], payload, 4, deadline),), callback=cb, error_callback=ecb)
            else:
                pool.apply_async(explore_subtree, ((ci, cases[ci], payload, deadline),), callback=cb, error_callback=ecb)
            inflight += 1
        if time.time() > deadline and queue:
            exhausted = False
            for kind, ci, payload in queue: agg.unexplored += (len(payload) if kind == 'chunk' else 1)
            queue = []
        if not results:
            time.sleep(0.005); continue
        r = results.pop(); inflight -= 1
        if 'error' in r:
            errors.append(r['error']); continue
        ci = r['case_idx']
        pc_ = meta['per_case'].setdefault(ci, {'paths': 0, 'cpu_s': 0.0})
        pc_['paths'] += r['acc'].paths; pc_['cpu_s'] += r['wall']
        agg.merge(r['acc'])
        meta['solver_calls'] += r['solver_calls']; meta['solver_time'] += r['solver_time']
        meta['fns'].update(r['fns']); meta['models'].update(r['models'])
        left = r['leftover']
        if left and r.get('mode') == 'subtree':
            rng.shuffle(left)
            for p in left: queue.append(('subtree', ci, p))
        elif left:
            grown[ci] += len(left)
            if use_fork and len(left) + sum(1 for q in queue if q[1] == ci and q[0] == 'chunk') * 3 >= max(48, frontier_target // max(1, len(cases))):
                rng.shuffle(left)
                for p in left: queue.append(('subtree', ci, p))
            else:
                # keep growing the frontier by re-execution, a few prefixes per task
                rng.shuffle(left)
                n = max(1, min(len(left), 6))
                for j in range(n):
                    part = left[j::n]
                    if part: queue.append(('chunk', ci, part))
    pool.close(); pool.terminate()
    wall = time.time() - t0
    if agg.unexplored: exhausted = False

    # ---- verdict
    known = [k for k in load_known() if k['property'] == h.id]
    unknown = []; matched = {}
    for cls, v in sorted(agg.violations.items()):
        hit = None
        for k in known:
            if k.get('status', 'known') == 'known' and re.fullmatch(k['cls'], cls): hit = k; break
        if hit is None: unknown.append(v)
        else:
            mt = matched.setdefault(hit['id'], {'entry': hit, 'count': 0, 'witness': v['witness']}); mt['count'] += v['count']
    os.makedirs(os.path.join(ROOT, 'replays'), exist_ok=True)
    vio_lines = []
    for v in unknown:
        hsh = hashlib.sha1(json.dumps([v['cls'], v['witness']], sort_keys=True).encode()).hexdigest()[:12]
        path = os.path.join(ROOT, 'replays', '%s-%s.json' % (h.id, hsh))
        json.dump({'property': h.id, 'harness': harness_mod, 'cls': v['cls'], 'msg': v['msg'], 'case': v['case'], 'witness': v['witness'],
                   'request': v['request'], 'native': v['native']}, open(path, 'w'), indent=1, ensure_ascii=True)
        vio_lines.append('VIOLATION property=%s replay=%s' % (h.id, path))
        print('  class: %s (%d paths, interpreter predicted: %s)\n  what: %s\n  witness: %s' % (v['cls'], v['count'], v['predicted'], v['msg'][:300], json.dumps(v['witness'])[:300]))
    for kid, mt in sorted(matched.items()):
        print('KNOWN-FINDING: property=%s %s (%s; %d paths; e.g. %s)' % (h.id, mt['entry']['what'], kid, mt['count'], json.dumps(mt['witness'])[:160]))
    for l in vio_lines: print(l)
    n_unenc = sum(agg.unencoded.values())
    ev = {
        'property_id': h.id, 'tier': tier, 'seed': seed, 'level': h.level,
        'coverage': {
            'states': max(agg.paths, 1), 'transitions': max(agg.branch_points, 1),
            'traces_validated_against_impl': agg.agree,
            'samples': agg.samples[:6] or [{'note': 'no path explored'}],
            'evaluations': max(agg.paths, 1), 'distinct_nontrivial': len(agg.nontrivial),
            'rule': 'one evaluation = one explored execution path (distinct path condition) of the harness through the real MIR; '
                    'distinct_nontrivial counts distinct path witnesses (by hash of the concrete input) that the harness classifies as non-trivial',
            'exhaustive': bool(exhausted and not errors and not n_unenc and not agg.n_mismatch and not agg.child_crashes),
            'explanation': 'states = explored paths (distinct path conditions); transitions = branch decisions taken along them (two-sided forks: %d); '
                           'every path witness is replayed on the real build and compared with the interpreter\'s prediction' % agg.forks,
            'path_outcomes': agg.kinds, 'assertions_decided': agg.asserts, 'queries_discharged': agg.queries, 'solver_calls': meta['solver_calls'],
            'solver_time_s': round(meta['solver_time'], 2), 'witnesses_replayed': agg.replayed, 'extra_replays': agg.extra_replays,
            'native_timeouts': agg.native_timeouts,
            'encoding_mismatches': agg.n_mismatch, 'mismatch_samples': agg.mismatches[:5],
            'unencoded_paths': n_unenc, 'unencoded_reasons': dict(sorted(agg.unencoded.items(), key=lambda t: -t[1])[:10]),
            'unexplored_prefixes': agg.unexplored, 'child_crashes': agg.child_crashes,
            'fuel_max_blocks': agg.fuel_max, 'recursion_depth_max': agg.depth_max,
            'bounds': h.bounds.get(tier, {}) if isinstance(h.bounds, dict) else {},
            'cases': len(cases), 'per_case': [dict(case=cases[i], paths=v['paths'], cpu_s=round(v['cpu_s'], 1)) for i, v in sorted(meta['per_case'].items())],
            'coverage_table': dict(sorted(agg.coverage.items())),
            'functions_encoded': dict(sorted(meta['fns'].items())), 'models_used': sorted(meta['models']),
            'mir': {'tree_hash': th, 'statements': prog.statements, 'functions': len(prog.all), 'dump_s': round(dump_s, 1)},
            'known_findings_matched': {k: v['count'] for k, v in matched.items()},
            'oracle_leniency': h.oracle_leniency, 'worker_errors': errors[:5],
            'trusted_base': ['rustc nightly MIR dump', 'mirsym library models (std/rowan)', 'z3', 'harness oracle'],
        },
        'assumptions': list(h.assumptions), 'wall_s': round(wall, 2), 'violations': len(unknown),
    }
    os.makedirs(os.path.join(ROOT, 'evidence'), exist_ok=True)
    json.dump(ev, open(os.path.join(ROOT, 'evidence', h.id + '.json'), 'w'), indent=1, default=str)
    print('[%s %s] paths=%d outcomes=%s asserts=%d queries=%d solver=%.1fs replayed=%d agree=%d mismatches=%d unencoded=%d unexplored=%d exhaustive=%s wall=%.1fs (setup %.1fs)'
          % (h.id, tier, agg.paths, agg.kinds, agg.asserts, agg.queries, meta['solver_time'], agg.replayed, agg.agree, agg.n_mismatch,
             n_unenc, agg.unexplored, ev['coverage']['exhaustive'], wall, setup_s), file=sys.stderr)
    for i, v in sorted(meta['per_case'].items()): print('  case %s: paths=%d cpu=%.0fs' % (json.dumps(cases[i]), v['paths'], v['cpu_s']), file=sys.stderr)
    for mm in agg.mismatches[:3]: print('  ENCODING-MISMATCH: %s' % json.dumps(mm)[:500], file=sys.stderr)
    for k, v in sorted(agg.unencoded.items(), key=lambda t: -t[1])[:5]: print('  UNENCODED paths=%d reason=%s' % (v, k), file=sys.stderr)
    if errors:
        print('INCONCLUSIVE: worker errors: %s' % errors[:3], file=sys.stderr); return 2
    if unknown: return 1
    if strict and (agg.n_mismatch or n_unenc): return 2
    if agg.paths == 0:
        print('INCONCLUSIVE: no path explored', file=sys.stderr); return 2
    return 0


def run_replay(harness_mod, path):
    import importlib
    mod = importlib.import_module(harness_mod); h = mod.HARNESS
    rec = json.load(open(path))
    try: rpath = replay_mod.build()
    except RuntimeError as ex:
        print('INCONCLUSIVE: replay build failed: %s' % ex, file=sys.stderr); return 2
    rp = replay_mod.Replay(rpath)
    native = rp.call(rec['request']); rp.stop()
    viols = h.oracle(rec['case'], rec['witness'], native)
    print(json.dumps({'request': rec['request'], 'native': native}, indent=1)[:4000])
    if viols:
        for cls, msg in viols: print('reproduced: %s: %s' % (cls, msg))
        print('VIOLATION property=%s replay=%s' % (h.id, path)); return 1
    print('not reproduced on the current tree'); return 0
