"""Exploration driver: enumerates all paths of a harness (work-stealing over processes), decides the
property's assertions with the solver on every path, replays every path witness natively, writes evidence."""
import json, os, sys, time, hashlib, re, traceback, random
import multiprocessing as mp
import z3
from . import mirdump, replay as replay_mod
from .engine import Engine, Program
from .values import *
from . import models_core, models_str, models_iter, models_fmt, models_rowan  # noqa: F401 (register models)

ROOT = os.path.dirname(os.path.dirname(os.path.abspath(__file__)))


class Harness:
    id = None
    op = None
    fuel = 20000
    level = 'model_checking'
    def cases(self, tier): raise NotImplementedError
    def run(self, e, case): raise NotImplementedError
    def request(self, case, witness):
        r = {'op': self.op}; r.update(witness); return r
    def oracle(self, case, witness, native): raise NotImplementedError
    def compare(self, case, pred, native): return []
    def nontrivial(self, case, witness): return True
    def coverage_keys(self, case, witness, native): return []
    assumptions = []
    oracle_leniency = []
    bounds = {}


# ---- concretisation ---------------------------------------------------------------------------
def conc(m, v):
    if v is None: return None
    if isinstance(v, bool): return v
    if isinstance(v, int): return v
    if isinstance(v, str): return v
    if isinstance(v, z3.ExprRef):
        r = m.eval(v, model_completion=True)
        if z3.is_bool(r): return z3.is_true(r)
        return r.as_long()
    if isinstance(v, Str): return ''.join(chr(conc(m, c)) for c in v.chars)
    if isinstance(v, (list, tuple)): return [conc(m, x) for x in v]
    if isinstance(v, dict): return {k: conc(m, x) for k, x in v.items()}
    if isinstance(v, EnumV):
        var = v.variant if not is_sym(v.variant) else conc(m, v.variant)
        return {'v': var, 'f': [conc(m, x) for x in v.slots]}
    if isinstance(v, (Agg, VecV)): return [conc(m, x) for x in v.slots]
    if isinstance(v, Unit): return None
    if isinstance(v, Opaque): return {'opaque': v.kind, 'p': conc(m, v.payload)}
    raise TypeError('cannot concretise %r' % type(v))


def input_terms(v, out):
    if isinstance(v, z3.ExprRef): out.append(v)
    elif isinstance(v, Str):
        for c in v.chars:
            if is_sym(c): out.append(c)
    elif isinstance(v, (list, tuple)):
        for x in v: input_terms(x, out)
    elif isinstance(v, dict):
        for x in v.values(): input_terms(x, out)
    elif isinstance(v, (Agg, VecV, EnumV)):
        if isinstance(v, EnumV) and is_sym(v.variant): out.append(v.variant)
        for x in v.slots: input_terms(x, out)


# ---- per-process state --------------------------------------------------------------------------
G = {}


def worker_init(mirfiles, replay_path, seed, harness_mod, strict):
    import importlib
    prog = Program(mirfiles, mirdump.REPO)
    e = Engine(prog); e.seed = seed
    G['e'] = e; G['prog'] = prog
    G['replay'] = replay_mod.Replay(replay_path)
    G['mod'] = importlib.import_module(harness_mod)
    G['harness'] = G['mod'].HARNESS
    G['strict'] = strict
    if hasattr(G['mod'], 'install'): G['mod'].install(e)


def run_one(e, h, case, prefix):
    """execute one path; returns record dict"""
    e.start_path(prefix)
    e.inputs = {}
    e.fuel_limit = h.fuel if not callable(h.fuel) else h.fuel(case)
    rec = {'kind': 'ok', 'msg': '', 'queries': 0}
    pred = None; viol_model = None
    try:
        out = h.run(e, case)
        pred = out.get('pred')
        for label, cond in out.get('checks', []):
            if cond is True: continue
            if cond is False:
                rec['kind'] = 'pred-violation'; rec['msg'] = label; break
            rec['queries'] += 1
            m = e.check(z3.Not(cond), want_model=True)
            if m is not None:
                rec['kind'] = 'pred-violation'; rec['msg'] = label; viol_model = m; break
    except Panic as ex:
        rec['kind'] = 'panic'; rec['msg'] = '%s @ %s' % (ex, ex.where)
    except Fuel:
        rec['kind'] = 'fuel'
    except Infeasible:
        rec['kind'] = 'infeasible'
    except Unsupported as ex:
        rec['kind'] = 'unencoded'; rec['msg'] = str(ex)[:300]
    except RecursionError:
        rec['kind'] = 'panic'; rec['msg'] = 'stack overflow (python recursion limit)'
    rec['alts'] = e.new_alternatives
    rec['decisions'] = len(e.decisions)
    rec['fuel_used'] = e.fuel
    if rec['kind'] == 'infeasible': return rec, None, None
    try:
        m = viol_model if viol_model is not None else e.get_model()
    except Infeasible:
        rec['kind'] = 'infeasible'; return rec, None, None
    rec['model'] = m
    witness = conc(m, e.inputs)
    pc = None
    if pred is not None and rec['kind'] == 'ok':
        try: pc = conc(m, pred)
        except Exception as ex:
            rec['kind'] = 'unencoded'; rec['msg'] = 'prediction not concretisable: %s' % ex
    return rec, witness, pc


def more_witnesses(e, k):
    """up to k further distinct models of the current PC (over the input terms)"""
    terms = []; input_terms(e.inputs, terms)
    out = []
    if not terms: return out
    e.sync()
    e.solver.push()
    try:
        for _ in range(k):
            if e.solver.check() != z3.sat: break
            m = e.solver.model()
            out.append(conc(m, e.inputs))
            e.solver.add(z3.Or(*[t != m.eval(t, model_completion=True) for t in terms]))
    finally:
        e.solver.pop()
    return out


def explore_chunk(args):
    case_idx, case, prefixes, budget = args
    e = G['e']; h = G['harness']; rp = G['replay']
    t0 = time.time()
    res = {'case_idx': case_idx, 'paths': 0, 'kinds': {}, 'violations': [], 'mismatches': [], 'unencoded': {}, 'samples': [],
           'queries': 0, 'solver_calls0': e.stats['solver_calls'], 'solver_time0': e.stats['solver_time'], 'replayed': 0, 'agree': 0,
           'branch_points': 0, 'fuel_max': 0, 'nontrivial': set(), 'coverage': {}, 'leftover': [], 'native_timeouts': 0, 'depth_max': 0,
           'extra_replays': 0}
    work = list(prefixes)
    while work and res['paths'] < budget:
        prefix = work.pop()
        try:
            rec, witness, pc = run_one(e, h, case, prefix)
        except Exception as ex:   # engine bug: never silently dropped
            rec = {'kind': 'unencoded', 'msg': 'engine error: %s: %s' % (type(ex).__name__, str(ex)[:200]), 'alts': e.new_alternatives,
                   'decisions': len(e.decisions), 'fuel_used': e.fuel, 'queries': 0}
            witness = None; pc = None
            if os.environ.get('MIRSYM_DEBUG'): traceback.print_exc()
            try:
                m = e.get_model(); witness = conc(m, e.inputs)
            except Exception: pass
        work.extend(rec['alts'])
        if rec['kind'] == 'infeasible': continue
        res['paths'] += 1
        res['kinds'][rec['kind']] = res['kinds'].get(rec['kind'], 0) + 1
        res['queries'] += rec['queries']
        res['branch_points'] += rec['decisions']
        res['fuel_max'] = max(res['fuel_max'], rec['fuel_used'])
        res['depth_max'] = max(res['depth_max'], e.max_depth)
        if witness is None: continue
        wkey = hashlib.sha1(json.dumps(witness, sort_keys=True).encode()).hexdigest()[:16]
        # ---- native replay
        req = h.request(case, witness)
        native = rp.call(req)
        res['replayed'] += 1
        if native.get('timeout'): res['native_timeouts'] += 1
        viols = h.oracle(case, witness, native)
        if h.nontrivial(case, witness): res['nontrivial'].add(wkey)
        for ck in h.coverage_keys(case, witness, native):
            res['coverage'][ck] = res['coverage'].get(ck, 0) + 1
        if viols:
            for cls, msg in viols:
                res['violations'].append({'cls': cls, 'msg': msg, 'case': case, 'witness': witness, 'request': req, 'native': native,
                                          'predicted': rec['kind'], 'pmsg': rec['msg']})
            if rec['kind'] == 'ok':
                res['mismatches'].append({'why': 'interpreter predicted no violation, native run violates', 'witness': witness, 'viol': viols[0][1]})
        else:
            mismatch = None
            if rec['kind'] in ('pred-violation', 'panic'):
                mismatch = 'interpreter predicted %s (%s), native run satisfies the oracle' % (rec['kind'], rec['msg'])
            elif rec['kind'] == 'ok' and pc is not None:
                diffs = h.compare(case, pc, native)
                if diffs: mismatch = 'prediction differs from native: ' + '; '.join(diffs[:3])
            if mismatch:
                res['mismatches'].append({'why': mismatch, 'witness': witness})
            elif rec['kind'] == 'ok':
                res['agree'] += 1
            if rec['kind'] == 'unencoded':
                res['unencoded'][rec['msg']] = res['unencoded'].get(rec['msg'], 0) + 1
            if rec['kind'] in ('unencoded',) or mismatch:
                # solver-directed concrete testing of this path: more models of its PC, judged natively
                for w2 in more_witnesses(e, 8):
                    req2 = h.request(case, w2); n2 = rp.call(req2); res['extra_replays'] += 1
                    for cls, msg in h.oracle(case, w2, n2):
                        res['violations'].append({'cls': cls, 'msg': msg, 'case': case, 'witness': w2, 'request': req2, 'native': n2,
                                                  'predicted': 'unencoded', 'pmsg': rec['msg']})
        if len(res['samples']) < 3:
            pcs = ''
            try: pcs = z3.And(*e.pc).sexpr()[:400] if e.pc else 'true'
            except Exception: pass
            res['samples'].append({'case': case, 'witness': witness, 'outcome': rec['kind'], 'path_condition_smt2': pcs,
                                   'native_ok': not viols})
    res['leftover'] = work
    res['solver_calls'] = e.stats['solver_calls'] - res.pop('solver_calls0')
    res['solver_time'] = e.stats['solver_time'] - res.pop('solver_time0')
    res['fns'] = {f.crate + '::' + f.name: f.sha for f in e.used_fns}
    res['models'] = sorted(e.used_models)
    res['nontrivial'] = list(res['nontrivial'])
    res['wall'] = time.time() - t0
    # dedupe violations by class inside the chunk (keep first witness, count)
    dd = {}
    for v in res['violations']:
        k = v['cls']
        if k in dd: dd[k]['count'] += 1
        else: v['count'] = 1; dd[k] = v
    res['violations'] = list(dd.values())
    res['mismatches'] = res['mismatches'][:5] + ([{'why': '... %d more' % (len(res['mismatches']) - 5)}] if len(res['mismatches']) > 5 else [])
    res['n_mismatch'] = len(res['mismatches'])
    return res


# ---- master -----------------------------------------------------------------------------------------
def load_known():
    p = os.path.join(ROOT, 'known_findings.json')
    if not os.path.exists(p): return []
    return json.load(open(p))


def run_check(harness_mod, tier, seed, jobs=None, wall_budget=None, chunk=40):
    import importlib
    t0 = time.time()
    mod = importlib.import_module(harness_mod)
    h = mod.HARNESS
    strict = bool(os.environ.get('VERIF_STRICT'))
    try:
        mirfiles, th, dump_s = mirdump.dump_all()
    except RuntimeError as ex:
        print('INCONCLUSIVE: /repo does not build: ' + str(ex)[-2000:], file=sys.stderr); return 2
    try:
        rpath = replay_mod.build()
    except RuntimeError as ex:
        print('INCONCLUSIVE: replay crate does not build against /repo: ' + str(ex)[-3000:], file=sys.stderr); return 2
    setup_s = time.time() - t0
    try:
        prog = Program(mirfiles, mirdump.REPO)
    except Exception as ex:
        print('INCONCLUSIVE: MIR dump not parseable: %s' % ex, file=sys.stderr); return 2
    jobs = jobs or int(os.environ.get('VERIF_JOBS', '16'))
    cases = h.cases(tier)
    budget = wall_budget or float(os.environ.get('VERIF_WALL', {'quick': 240, 'thorough': 2400}[tier]))
    ctx = mp.get_context('fork')
    pool = ctx.Pool(jobs, initializer=worker_init, initargs=(mirfiles, rpath, seed, harness_mod, strict))
    rng = random.Random(seed)
    agg = {'paths': 0, 'kinds': {}, 'violations': {}, 'mismatches': [], 'n_mismatch': 0, 'unencoded': {}, 'samples': [], 'queries': 0,
           'solver_calls': 0, 'solver_time': 0.0, 'replayed': 0, 'agree': 0, 'branch_points': 0, 'fuel_max': 0, 'nontrivial': set(),
           'coverage': {}, 'fns': {}, 'models': set(), 'native_timeouts': 0, 'depth_max': 0, 'per_case': {}, 'extra_replays': 0}
    pending = []
    queue = [(i, c, [[]]) for i, c in enumerate(cases)]
    rng.shuffle(queue)
    queue.sort(key=lambda t: t[1].get('order', 0))
    inflight = 0; exhausted = True
    results = []

    def cb(r): results.append(r)
    def ecb(ex): results.append({'error': repr(ex)})
    errors = []
    while queue or inflight:
        while queue and inflight < jobs * 2:
            if time.time() - t0 > budget:
                exhausted = False; break
            ci, case, prefixes = queue.pop(0)
            pool.apply_async(explore_chunk, ((ci, case, prefixes, chunk),), callback=cb, error_callback=ecb)
            inflight += 1
        if time.time() - t0 > budget and queue:
            exhausted = False
            agg['unexplored_prefixes'] = agg.get('unexplored_prefixes', 0) + sum(len(p) for _, _, p in queue)
            queue = []
        if not results:
            time.sleep(0.01); continue
        r = results.pop(); inflight -= 1
        if 'error' in r:
            errors.append(r['error']); continue
        ci = r['case_idx']
        pc_ = agg['per_case'].setdefault(ci, {'paths': 0})
        pc_['paths'] += r['paths']
        for k in ('paths', 'queries', 'solver_calls', 'solver_time', 'replayed', 'agree', 'branch_points', 'native_timeouts', 'n_mismatch', 'extra_replays'):
            agg[k] += r[k]
        agg['fuel_max'] = max(agg['fuel_max'], r['fuel_max']); agg['depth_max'] = max(agg['depth_max'], r['depth_max'])
        for k, v in r['kinds'].items(): agg['kinds'][k] = agg['kinds'].get(k, 0) + v
        for k, v in r['unencoded'].items(): agg['unencoded'][k] = agg['unencoded'].get(k, 0) + v
        for k, v in r['coverage'].items(): agg['coverage'][k] = agg['coverage'].get(k, 0) + v
        agg['nontrivial'].update(r['nontrivial'])
        agg['fns'].update(r['fns']); agg['models'].update(r['models'])
        if len(agg['samples']) < 6: agg['samples'].extend(r['samples'][:2])
        agg['mismatches'].extend(r['mismatches'])
        for v in r['violations']:
            k = v['cls']
            if k in agg['violations']: agg['violations'][k]['count'] += v['count']
            else: agg['violations'][k] = v
        left = r['leftover']
        if left:
            # split leftovers into several tasks for load balancing
            rng.shuffle(left)
            n = max(1, min(len(left), 4))
            for j in range(n):
                part = left[j::n]
                if part: queue.append((ci, cases[ci], part))
    pool.close(); pool.terminate()
    wall = time.time() - t0

    # ---- verdict
    known = [k for k in load_known() if k['property'] == h.id]
    unknown = []; matched = {}
    for cls, v in sorted(agg['violations'].items()):
        hit = None
        for k in known:
            if k.get('status', 'known') == 'known' and re.fullmatch(k['cls'], cls): hit = k; break
        if hit is None: unknown.append(v)
        else: matched.setdefault(hit['id'], {'entry': hit, 'count': 0, 'witness': v['witness']})['count'] += v['count']
    os.makedirs(os.path.join(ROOT, 'replays'), exist_ok=True)
    vio_lines = []
    for v in unknown:
        hsh = hashlib.sha1(json.dumps([v['cls'], v['witness']], sort_keys=True).encode()).hexdigest()[:12]
        path = os.path.join(ROOT, 'replays', '%s-%s.json' % (h.id, hsh))
        json.dump({'property': h.id, 'harness': harness_mod, 'cls': v['cls'], 'msg': v['msg'], 'case': v['case'], 'witness': v['witness'],
                   'request': v['request'], 'native': v['native']}, open(path, 'w'), indent=1, ensure_ascii=True)
        vio_lines.append('VIOLATION property=%s replay=%s' % (h.id, path))
        print('  class: %s\n  what: %s\n  witness: %s' % (v['cls'], v['msg'][:300], json.dumps(v['witness'])[:300]))
    for kid, mt in sorted(matched.items()):
        print('KNOWN-FINDING: property=%s %s (%s; %d paths; e.g. %s)' % (h.id, mt['entry']['what'], kid, mt['count'], json.dumps(mt['witness'])[:160]))
    for l in vio_lines: print(l)
    ev = {
        'property_id': h.id, 'tier': tier, 'seed': seed, 'level': h.level,
        'coverage': {
            'states': max(agg['paths'], 1), 'transitions': max(agg['branch_points'], 1),
            'traces_validated_against_impl': agg['agree'],
            'samples': agg['samples'][:6] or [{'note': 'no path explored'}],
            'evaluations': max(agg['paths'], 1), 'distinct_nontrivial': len(agg['nontrivial']),
            'rule': 'one evaluation = one explored execution path (distinct path condition) of the harness through the real MIR; '
                    'distinct_nontrivial counts distinct path witnesses (by hash of the concrete input) that the harness classifies as non-trivial',
            'exhaustive': bool(exhausted and not errors and not agg['unencoded'] and not agg['n_mismatch']),
            'explanation': 'states = explored paths (distinct path conditions); transitions = solver-decided branch points along them; '
                           'every path witness is replayed on the real build and compared with the interpreter\'s prediction',
            'path_outcomes': agg['kinds'], 'queries_discharged': agg['queries'], 'solver_calls': agg['solver_calls'],
            'solver_time_s': round(agg['solver_time'], 2), 'witnesses_replayed': agg['replayed'], 'extra_replays': agg['extra_replays'],
            'native_timeouts': agg['native_timeouts'],
            'encoding_mismatches': agg['n_mismatch'], 'mismatch_samples': agg['mismatches'][:5],
            'unencoded_paths': sum(agg['unencoded'].values()), 'unencoded_reasons': dict(sorted(agg['unencoded'].items(), key=lambda t: -t[1])[:10]),
            'unexplored_prefixes': agg.get('unexplored_prefixes', 0),
            'fuel_max_blocks': agg['fuel_max'], 'recursion_depth_max': agg['depth_max'],
            'bounds': h.bounds.get(tier, {}) if isinstance(h.bounds, dict) else {},
            'cases': len(cases), 'coverage_table': dict(sorted(agg['coverage'].items())),
            'functions_encoded': dict(sorted(agg['fns'].items())), 'models_used': sorted(agg['models']),
            'mir': {'tree_hash': th, 'statements': prog.statements, 'functions': len(prog.all), 'dump_s': round(dump_s, 1)},
            'known_findings_matched': {k: v['count'] for k, v in matched.items()},
            'oracle_leniency': h.oracle_leniency, 'worker_errors': errors[:5],
            'trusted_base': ['rustc nightly MIR dump', 'mirsym library models (std/rowan)', 'z3', 'harness oracle'],
        },
        'assumptions': list(h.assumptions), 'wall_s': round(wall, 2), 'violations': len(unknown),
    }
    os.makedirs(os.path.join(ROOT, 'evidence'), exist_ok=True)
    json.dump(ev, open(os.path.join(ROOT, 'evidence', h.id + '.json'), 'w'), indent=1, default=str)
    print('[%s %s] paths=%d outcomes=%s queries=%d solver=%.1fs replayed=%d agree=%d mismatches=%d unencoded=%d exhaustive=%s wall=%.1fs (setup %.1fs)'
          % (h.id, tier, agg['paths'], agg['kinds'], agg['queries'], agg['solver_time'], agg['replayed'], agg['agree'], agg['n_mismatch'],
             sum(agg['unencoded'].values()), ev['coverage']['exhaustive'], wall, setup_s), file=sys.stderr)
    if agg['n_mismatch']:
        for mm in agg['mismatches'][:3]: print('  ENCODING-MISMATCH: %s' % json.dumps(mm)[:400], file=sys.stderr)
    for k, v in sorted(agg['unencoded'].items(), key=lambda t: -t[1])[:5]: print('  UNENCODED paths=%d reason=%s' % (v, k), file=sys.stderr)
    if errors:
        print('INCONCLUSIVE: worker errors: %s' % errors[:3], file=sys.stderr); return 2
    if unknown: return 1
    if strict and (agg['n_mismatch'] or agg['unencoded']): return 2
    if agg['paths'] == 0:
        print('INCONCLUSIVE: no path explored', file=sys.stderr); return 2
    return 0


def run_replay(harness_mod, path):
    import importlib
    mod = importlib.import_module(harness_mod); h = mod.HARNESS
    rec = json.load(open(path))
    try: rpath = replay_mod.build()
    except RuntimeError as ex:
        print('INCONCLUSIVE: replay build failed: %s' % ex, file=sys.stderr); return 2
    rp = replay_mod.Replay(rpath)
    native = rp.call(rec['request']); rp.stop()
    viols = h.oracle(rec['case'], rec['witness'], native)
    print(json.dumps({'request': rec['request'], 'native': native}, indent=1)[:4000])
    if viols:
        for cls, msg in viols: print('reproduced: %s: %s' % (cls, msg))
        print('VIOLATION property=%s replay=%s' % (h.id, path)); return 1
    print('not reproduced on the current tree'); return 0
