"""Models: Option / Result / Try / Clone / PartialEq / Default / conversions / Box / mem."""
import re
import z3
from .engine import model, Engine, turbofish, last_seg, strip_generics
from .values import *


def deref(e, v): return e.deref(v)


def clone_val(e, v):
    v = e.deref(v) if isinstance(v, Ref) else v
    if isinstance(v, Agg): return Agg(v.ty, [clone_val(e, x) if not isinstance(x, Ref) else x for x in v.slots])
    if isinstance(v, EnumV): return EnumV(v.ty, v.variant, [clone_val(e, x) if not isinstance(x, Ref) else x for x in v.slots])
    if isinstance(v, VecV): return VecV([clone_val(e, x) if not isinstance(x, Ref) else x for x in v.slots], v.kind)
    if isinstance(v, BoxV): return BoxV(clone_val(e, v.slots[0]))
    if isinstance(v, Closure): return Closure(v.fn, [clone_val(e, x) if not isinstance(x, Ref) else x for x in v.slots])
    if hasattr(v, 'clone_value'): return v.clone_value(e)
    return v


def veq(e, x, y):
    """structural equality -> bool or z3 Bool"""
    x = e.deref(x); y = e.deref(y)
    if x is None or y is None: return x is y
    if isinstance(x, EnumV) and isinstance(y, EnumV):
        if is_sym(x.variant) or is_sym(y.variant):
            dx = e.discriminant(x); dy = e.discriminant(y)
            return s_eq(dx, dy)
        if x.variant != y.variant: return False
        return b_and(*[veq(e, p, q) for p, q in zip(x.slots, y.slots)])
    if isinstance(x, Str) and isinstance(y, Str):
        if len(x.chars) != len(y.chars): return False
        cs = []
        for p, q in zip(x.chars, y.chars):
            if p is q: continue
            if isinstance(p, int) and isinstance(q, int):
                if p != q: return False
            else: cs.append(p == q)
        return b_and(*cs)
    if isinstance(x, bool) and isinstance(y, bool): return x == y
    if isinstance(x, (int, bool)) and isinstance(y, (int, bool)): return x == y
    if isinstance(x, Unit) and isinstance(y, Unit): return True
    if is_sym(x) or is_sym(y):
        if isinstance(x, bool): x = z3.BoolVal(x)
        if isinstance(y, bool): y = z3.BoolVal(y)
        return x == y
    if isinstance(x, (Agg, VecV, Closure)) and isinstance(y, (Agg, VecV, Closure)):
        if len(x.slots) != len(y.slots): return False
        return b_and(*[veq(e, p, q) for p, q in zip(x.slots, y.slots)])
    if isinstance(x, BoxV) and isinstance(y, BoxV): return veq(e, x.slots[0], y.slots[0])
    if isinstance(x, Opaque) and isinstance(y, Opaque):
        if x.kind != y.kind: return False
        if x.kind == 'Version':        # debversion's PartialEq is equality under Debian ordering, not of the spelling
            from .models_ext import version_cmp
            return version_cmp(e, x, y) == 0
        return veq(e, x.payload, y.payload)
    if hasattr(x, 'eq_value'): return x.eq_value(e, y)
    raise Unsupported('veq %r %r' % (type(x).__name__, type(y).__name__))


def is_variant(e, v, name):
    v = e.deref(v)
    if not isinstance(v, EnumV): raise Unsupported('expected enum, got %s' % type(v).__name__)
    return v.variant == name


# ---- Option ---------------------------------------------------------------------
@model('Option::unwrap_or')
def _(e, c, a, raw): return a[0].slots[0] if a[0].variant == 'Some' else a[1]
@model('Option::unwrap_or_default')
def _(e, c, a, raw):
    if a[0].variant == 'Some': return a[0].slots[0]
    return default_for(e, turbofish(re.sub(r'::unwrap_or_default$', '', raw))[0])
@model('Option::unwrap_or_else')
def _(e, c, a, raw): return a[0].slots[0] if a[0].variant == 'Some' else e.call_value(a[1], [])
@model('Option::unwrap')
def _(e, c, a, raw):
    if a[0].variant == 'Some': return a[0].slots[0]
    raise Panic('called `Option::unwrap()` on a `None` value')
@model('Option::expect')
def _(e, c, a, raw):
    if a[0].variant == 'Some': return a[0].slots[0]
    raise Panic('Option::expect on None')
@model('Option::map')
def _(e, c, a, raw):
    if a[0].variant == 'None': return NONE()
    return SOME(e.call_value(a[1], [a[0].slots[0]]))
@model('Option::map_or')
def _(e, c, a, raw):
    if a[0].variant == 'None': return a[1]
    return e.call_value(a[2], [a[0].slots[0]])
@model('Option::map_or_else')
def _(e, c, a, raw):
    if a[0].variant == 'None': return e.call_value(a[1], [])
    return e.call_value(a[2], [a[0].slots[0]])
@model('Option::is_some_and')
def _(e, c, a, raw):
    if a[0].variant == 'None': return False
    return e.call_value(a[1], [a[0].slots[0]])
@model('Option::is_none_or')
def _(e, c, a, raw):
    if a[0].variant == 'None': return True
    return e.call_value(a[1], [a[0].slots[0]])
@model('Option::and_then')
def _(e, c, a, raw):
    return NONE() if a[0].variant == 'None' else e.call_value(a[1], [a[0].slots[0]])
@model('Option::or_else')
def _(e, c, a, raw):
    return a[0] if a[0].variant == 'Some' else e.call_value(a[1], [])
@model('Option::or')
def _(e, c, a, raw): return a[0] if a[0].variant == 'Some' else a[1]
@model('Option::and')
def _(e, c, a, raw): return a[1] if a[0].variant == 'Some' else NONE()
@model('Option::filter')
def _(e, c, a, raw):
    if a[0].variant == 'None': return NONE()
    return a[0] if e.branch(e.call_value(a[1], [Ref(a[0].slots, [0])])) else NONE()
@model('Option::is_some')
def _(e, c, a, raw): return deref(e, a[0]).variant == 'Some'
@model('Option::is_none')
def _(e, c, a, raw): return deref(e, a[0]).variant == 'None'
@model('Option::ok_or')
def _(e, c, a, raw): return OK(a[0].slots[0]) if a[0].variant == 'Some' else ERR(a[1])
@model('Option::ok_or_else')
def _(e, c, a, raw): return OK(a[0].slots[0]) if a[0].variant == 'Some' else ERR(e.call_value(a[1], []))
@model('Option::as_ref', 'Option::as_mut')
def _(e, c, a, raw):
    r = e.deref1(a[0]); v = e.deref(r)
    if v.variant == 'None': return NONE()
    return SOME(Ref(v.slots, [0]))
@model('Option::as_deref', 'Option::as_deref_mut')
def _(e, c, a, raw):
    v = deref(e, a[0])
    if v.variant == 'None': return NONE()
    inner = v.slots[0]
    if isinstance(inner, (Str,)): return SOME(inner)
    return SOME(Ref(v.slots, [0]))
@model('Option::cloned', 'Option::copied')
def _(e, c, a, raw):
    if a[0].variant == 'None': return NONE()
    return SOME(clone_val(e, a[0].slots[0]))
@model('Option::take')
def _(e, c, a, raw):
    r = e.deref1(a[0]); v = e.deref(r)
    e.write(r.root, r.path, NONE()); return v
@model('Option::replace')
def _(e, c, a, raw):
    r = e.deref1(a[0]); v = e.deref(r)
    e.write(r.root, r.path, SOME(a[1])); return v
@model('Option::insert', 'Option::get_or_insert')
def _(e, c, a, raw):
    r = e.deref1(a[0]); v = e.deref(r)
    if c.endswith('get_or_insert') and v.variant == 'Some': return Ref(v.slots, [0])
    nv = SOME(a[1]); e.write(r.root, r.path, nv); return Ref(nv.slots, [0])
@model('Option::get_or_insert_with')
def _(e, c, a, raw):
    r = e.deref1(a[0]); v = e.deref(r)
    if v.variant == 'Some': return Ref(v.slots, [0])
    nv = SOME(e.call_value(a[1], [])); e.write(r.root, r.path, nv); return Ref(nv.slots, [0])
@model('Option::transpose')
def _(e, c, a, raw):
    v = a[0]
    if v.variant == 'None': return OK(NONE())
    r = v.slots[0]
    return OK(SOME(r.slots[0])) if r.variant == 'Ok' else ERR(r.slots[0])
@model('Option::flatten')
def _(e, c, a, raw): return NONE() if a[0].variant == 'None' else a[0].slots[0]
@model('Option::zip')
def _(e, c, a, raw):
    if a[0].variant == 'Some' and a[1].variant == 'Some': return SOME(Agg('tuple', [a[0].slots[0], a[1].slots[0]]))
    return NONE()
@model('Option::unzip')
def _(e, c, a, raw):
    if a[0].variant == 'Some': return Agg('tuple', [SOME(a[0].slots[0].slots[0]), SOME(a[0].slots[0].slots[1])])
    return Agg('tuple', [NONE(), NONE()])
@model('Option::xor')
def _(e, c, a, raw):
    if a[0].variant == 'Some' and a[1].variant == 'None': return a[0]
    if a[0].variant == 'None' and a[1].variant == 'Some': return a[1]
    return NONE()
@model('Option::iter')
def _(e, c, a, raw):
    from .models_iter import ListIter
    v = deref(e, a[0])
    return ListIter([Ref(v.slots, [0])] if v.variant == 'Some' else [])
@model('Option::unwrap_unchecked')
def _(e, c, a, raw): return a[0].slots[0]
@model('Option::inspect')
def _(e, c, a, raw):
    if a[0].variant == 'Some': e.call_value(a[1], [Ref(a[0].slots, [0])])
    return a[0]

# ---- Result ---------------------------------------------------------------------
@model('Result::unwrap')
def _(e, c, a, raw):
    if a[0].variant == 'Ok': return a[0].slots[0]
    raise Panic('called `Result::unwrap()` on an `Err` value')
@model('Result::expect')
def _(e, c, a, raw):
    if a[0].variant == 'Ok': return a[0].slots[0]
    raise Panic('Result::expect on Err')
@model('Result::unwrap_err', 'Result::expect_err')
def _(e, c, a, raw):
    if a[0].variant == 'Err': return a[0].slots[0]
    raise Panic('Result::unwrap_err on Ok')
@model('Result::unwrap_or')
def _(e, c, a, raw): return a[0].slots[0] if a[0].variant == 'Ok' else a[1]
@model('Result::unwrap_or_default')
def _(e, c, a, raw):
    if a[0].variant == 'Ok': return a[0].slots[0]
    return default_for(e, turbofish(re.sub(r'::unwrap_or_default$', '', raw))[0])
@model('Result::unwrap_or_else')
def _(e, c, a, raw): return a[0].slots[0] if a[0].variant == 'Ok' else e.call_value(a[1], [a[0].slots[0]])
@model('Result::ok')
def _(e, c, a, raw): return SOME(a[0].slots[0]) if a[0].variant == 'Ok' else NONE()
@model('Result::err')
def _(e, c, a, raw): return SOME(a[0].slots[0]) if a[0].variant == 'Err' else NONE()
@model('Result::is_ok')
def _(e, c, a, raw): return deref(e, a[0]).variant == 'Ok'
@model('Result::is_err')
def _(e, c, a, raw): return deref(e, a[0]).variant == 'Err'
@model('Result::map')
def _(e, c, a, raw):
    if a[0].variant == 'Err': return a[0]
    return OK(e.call_value(a[1], [a[0].slots[0]]))
@model('Result::map_err')
def _(e, c, a, raw):
    if a[0].variant == 'Ok': return a[0]
    return ERR(e.call_value(a[1], [a[0].slots[0]]))
@model('Result::map_or')
def _(e, c, a, raw):
    if a[0].variant == 'Err': return a[1]
    return e.call_value(a[2], [a[0].slots[0]])
@model('Result::and_then')
def _(e, c, a, raw):
    if a[0].variant == 'Err': return a[0]
    return e.call_value(a[1], [a[0].slots[0]])
@model('Result::or_else')
def _(e, c, a, raw):
    if a[0].variant == 'Ok': return a[0]
    return e.call_value(a[1], [a[0].slots[0]])
@model('Result::as_ref', 'Result::as_mut')
def _(e, c, a, raw):
    v = deref(e, a[0]); return EnumV('Result', v.variant, [Ref(v.slots, [0])])
@model('Result::transpose')
def _(e, c, a, raw):
    v = a[0]
    if v.variant == 'Err': return SOME(ERR(v.slots[0]))
    o = v.slots[0]
    return SOME(OK(o.slots[0])) if o.variant == 'Some' else NONE()
@model('Result::is_ok_and')
def _(e, c, a, raw):
    if a[0].variant == 'Err': return False
    return e.call_value(a[1], [a[0].slots[0]])

# ---- Try ----------------------------------------------------------------------------
@model('re:^<Result<.*> as Try>::branch$')
def _(e, c, a, raw):
    v = a[0]
    if v.variant == 'Ok': return EnumV('ControlFlow', 'Continue', [v.slots[0]])
    return EnumV('ControlFlow', 'Break', [ERR(v.slots[0])])
@model('re:^<Result<.*> as FromResidual<.*>>::from_residual$')
def _(e, c, a, raw):
    err = a[0].slots[0]
    # From conversion of the error type: Result<T,F>: FromResidual<Result<Infallible,E>> where F: From<E>
    m = re.match(r'^<Result<(.*)> as FromResidual<Result<(.*)>>>::from_residual$', raw, re.S)
    if m:
        from .mirparse import split_top
        F = split_top(m.group(1))[-1]; E = split_top(m.group(2))[-1]
        if F.replace(' ', '') != E.replace(' ', '') and norm_ty(F) != norm_ty(E):
            err = e.call_path(e._call_crate, '<%s as From<%s>>::from' % (F, E), [err])
    return ERR(err)
def norm_ty(t): return re.sub(r'\b(?:\w+::)+', '', t.replace(' ', ''))
@model('re:^<Option<.*> as Try>::branch$')
def _(e, c, a, raw):
    v = a[0]
    if v.variant == 'Some': return EnumV('ControlFlow', 'Continue', [v.slots[0]])
    return EnumV('ControlFlow', 'Break', [NONE()])
@model('re:^<Option<.*> as FromResidual<.*>>::from_residual$')
def _(e, c, a, raw): return NONE()
@model('re:^<(std::string::)?String as From<(std::string::)?String>>::from$', 're:^<(.+) as From<\\1>>::from$')
def _(e, c, a, raw): return a[0]

# ---- Clone / PartialEq / Default ------------------------------------------------------
@model('re:^<(Option|Result|Vec|String|Box|&|\\(|std::|alloc::|core::|char|bool|u\\d+|usize|i\\d+|isize|\\[|HashMap|HashSet|BTreeMap|PathBuf|Cow|Range).* as Clone>::clone$',
       're:^<(url::)?Url as Clone>::clone$', 're:^<(debversion::)?Version as Clone>::clone$', 're:^<(chrono::)?NaiveDate as Clone>::clone$')
def _(e, c, a, raw): return clone_val(e, a[0])

@model('re:^<(Option|Result|Vec|String|str|&|\\(|Box|char|bool|u\\d+|usize|i\\d+|isize|\\[|Cow|std::|core::|alloc::).* as PartialEq.*>::eq$',
       're:^<(url::)?Url as PartialEq>::eq$', 're:^<(debversion::)?Version as PartialEq>::eq$', 're:^<(chrono::)?NaiveDate as PartialEq>::eq$',
       're:^<PathBuf as PartialEq>::eq$', 're:^core::cmp::impls::<impl PartialEq<&.*> for &.*>::eq$')
def _(e, c, a, raw): return veq(e, a[0], a[1])
@model('re:^<(Option|Result|Vec|String|str|&|\\(|Box|char|bool|u\\d+|usize|i\\d+|isize|\\[|Cow|std::|core::|alloc::).* as PartialEq.*>::ne$',
       're:^<(url::)?Url as PartialEq>::ne$', 're:^<(debversion::)?Version as PartialEq>::ne$', 're:^<(chrono::)?NaiveDate as PartialEq>::ne$',
       're:^core::cmp::impls::<impl PartialEq<&.*> for &.*>::ne$')
def _(e, c, a, raw): return b_not(veq(e, a[0], a[1]))


def default_for(e, ty):
    ty = ty.strip()
    base = last_seg(ty)
    if base in ('String', 'str'): return Str(())
    if base == 'Vec': return VecV([])
    if base == 'Option': return NONE()
    if base == 'bool': return False
    if base in ('usize', 'u8', 'u16', 'u32', 'u64', 'i32', 'i64', 'isize', 'i8', 'i16', 'u128', 'i128'): return 0
    if base in ('HashMap', 'BTreeMap'):
        from .models_iter import MapV
        return MapV()
    if base in ('HashSet', 'BTreeSet'):
        from .models_iter import SetV
        return SetV()
    if ty == '()': return UNIT
    return e.call_path(e._call_crate, '<%s as Default>::default' % ty, [])


@model('re:^<.* as Default>::default$')
def _(e, c, a, raw):
    m = re.match(r'^<(.*) as Default>::default$', raw, re.S)
    ty = m.group(1)
    base = last_seg(ty)
    if base in ('String', 'Vec', 'Option', 'bool', 'usize', 'u8', 'u16', 'u32', 'u64', 'i32', 'i64', 'isize', 'HashMap', 'HashSet',
                'BTreeMap', 'BTreeSet') or ty == '()':
        return default_for(e, ty)
    raise Unsupported('Default for ' + ty)

# ---- conversions ------------------------------------------------------------------------
@model('re:^<.* as Into<.*>>::into$')
def _(e, c, a, raw):
    m = re.match(r'^<(.*) as Into<(.*)>>::into$', raw, re.S)
    src, dst = m.group(1), m.group(2)
    if src.replace(' ', '') == dst.replace(' ', ''): return a[0]
    return e.call_path(e._call_crate, '<%s as From<%s>>::from' % (dst, src), a)
@model('re:^<.* as TryInto<.*>>::try_into$')
def _(e, c, a, raw):
    m = re.match(r'^<(.*) as TryInto<(.*)>>::try_into$', raw, re.S)
    return e.call_path(e._call_crate, '<%s as TryFrom<%s>>::try_from' % (m.group(2), m.group(1)), a)
@model('re:^<(std::string::)?String as From<&(mut )?str>>::from$', 're:^<(std::string::)?String as From<&(std::string::)?String>>::from$',
       're:^<(std::string::)?String as From<Cow<.*str>>>::from$', 're:^<(std::string::)?String as From<Box<str>>>::from$',
       're:^<Box<str> as From<.*>>::from$', 're:^<Cow<.*str> as From<.*>>::from$', 're:^<Rc<str> as From<.*>>::from$')
def _(e, c, a, raw):
    v = deref(e, a[0])
    if isinstance(v, EnumV) and v.ty == 'Cow': v = deref(e, v.slots[0])
    return v
@model('re:^<(std::string::)?String as From<char>>::from$')
def _(e, c, a, raw): return Str((a[0],))
@model('re:^<Option<.*> as From<.*>>::from$')
def _(e, c, a, raw): return SOME(a[0])
@model('re:^<(u\\d+|usize|i\\d+|isize) as From<(u\\d+|i\\d+|char|bool)>>::from$')
def _(e, c, a, raw):
    if isinstance(a[0], bool): return int(a[0])
    return a[0]
@model('re:^<Box<dyn .*> as From<.*>>::from$')
def _(e, c, a, raw): return BoxV(a[0])
@model('re:^<Vec<.*> as From<&\\[.*\\]>>::from$', 're:^<Vec<.*> as From<\\[.*\\]>>::from$', 're:^<Vec<.*> as From<&\\[.*; \\d+\\]>>::from$')
def _(e, c, a, raw):
    v = deref(e, a[0]); return VecV([clone_val(e, x) for x in v.slots])
@model('re:^<.* as AsRef<.*>>::as_ref$', 're:^<.* as Borrow<.*>>::borrow$', 're:^<.* as AsMut<.*>>::as_mut$')
def _(e, c, a, raw):
    v = deref(e, a[0])
    if isinstance(v, Str): return v
    if isinstance(v, Opaque) and v.kind == 'Url' and raw.rstrip().endswith('AsRef<str>>::as_ref'): return v.payload
    if isinstance(v, EnumV) and v.ty == 'Cow':
        inner = v.slots[0]
        return inner if isinstance(inner, (Ref, Str)) else Ref(v.slots, [0])
    return e.deref1(a[0]) if isinstance(a[0], Ref) else a[0]
@model('re:^<.* as ToOwned>::to_owned$')
def _(e, c, a, raw):
    v = deref(e, a[0])
    if isinstance(v, Agg) and v.ty in ('array', 'slice'): return VecV([clone_val(e, x) for x in v.slots])
    return clone_val(e, v)

# ---- Box / mem / misc ---------------------------------------------------------------------
@model('Box::new')
def _(e, c, a, raw): return BoxV(a[0])
@model('Box::new_uninit')
def _(e, c, a, raw): return BoxV(None)
@model('std::boxed::box_assume_init_into_vec_unsafe', 'alloc::boxed::box_assume_init_into_vec_unsafe')
def _(e, c, a, raw): return VecV(a[0].slots[0].slots)
@model('re:^<Box<.*> as Deref(Mut)?>::deref(_mut)?$')
def _(e, c, a, raw):
    b = deref(e, a[0]); return Ref(b.slots, [0])
@model('std::mem::take', 'core::mem::take')
def _(e, c, a, raw):
    r = e.deref1(a[0]); v = e.deref(r)
    e.write(r.root, r.path, default_for(e, turbofish(raw)[0])); return v
@model('std::mem::replace', 'core::mem::replace')
def _(e, c, a, raw):
    r = e.deref1(a[0]); v = e.deref(r); e.write(r.root, r.path, a[1]); return v
@model('std::mem::swap', 'core::mem::swap')
def _(e, c, a, raw):
    r1 = e.deref1(a[0]); r2 = e.deref1(a[1]); v1 = e.deref(r1); v2 = e.deref(r2)
    e.write(r1.root, r1.path, v2); e.write(r2.root, r2.path, v1); return UNIT
@model('std::mem::drop', 'core::mem::drop', 'std::mem::forget', 'core::mem::forget', 'std::hint::black_box')
def _(e, c, a, raw): return UNIT if not c.endswith('black_box') else a[0]
@model('must_use', 'core::hint::must_use', 'std::hint::must_use')
def _(e, c, a, raw): return a[0]
@model('std::intrinsics::discriminant_value', 'core::intrinsics::discriminant_value')
def _(e, c, a, raw): return e.discriminant(a[0])
@model('std::intrinsics::unreachable', 'core::intrinsics::unreachable', 'unreachable_unchecked', 'std::hint::unreachable_unchecked')
def _(e, c, a, raw): raise Unsupported('unreachable intrinsic reached')
@model('std::intrinsics::cold_path', 'core::intrinsics::cold_path', 'cold_path')
def _(e, c, a, raw): return UNIT
@model('core::cmp::max', 'std::cmp::max', 're:^<(usize|u\\d+|i\\d+|isize) as Ord>::max$')
def _(e, c, a, raw):
    x, y = a
    if is_sym(x) or is_sym(y): return y if e.branch(y >= x) else x
    return max(x, y)
@model('core::cmp::min', 'std::cmp::min', 're:^<(usize|u\\d+|i\\d+|isize) as Ord>::min$')
def _(e, c, a, raw):
    x, y = a
    if is_sym(x) or is_sym(y): return x if e.branch(x <= y) else y
    return min(x, y)

# panics
@model('re:^(core|std)::panicking::(panic|panic_fmt|panic_display|panic_explicit|panic_str|panic_nounwind|unreachable_display|panic_bounds_check|panic_const::.*|assert_failed|assert_failed_inner|begin_panic|panic_cannot_unwind|panic_misaligned_pointer_dereference)$',
       're:^(core|std)::(option|result)::(unwrap_failed|expect_failed)$', 're:^(core|std)::str::slice_error_fail$',
       're:^(core|std)::slice::index::slice_(start|end)_index_(len|overflow)_fail$', 're:^(core|std)::slice::index::slice_index_order_fail$',
       'begin_panic', 'panic_fmt', 'core::panicking::assert_failed', 'std::rt::begin_panic', 'std::rt::panic_fmt',
       'std::process::abort', 'std::process::exit', 're:^(core|std)::panicking::\\w+$', 'assert_failed', 'unwrap_failed', 'expect_failed')
def _(e, c, a, raw): raise Panic('explicit panic: ' + c)

# closure / fn-pointer calls through the Fn* traits: the argument list arrives as a tuple
@model('re:^<.* as Fn(Mut|Once)?<.*>>::call(_mut|_once)?$', 're:^core::ops::function::Fn(Mut|Once)?::call(_mut|_once)?$')
def _(e, c, a, raw):
    args = a[1].slots if isinstance(a[1], Agg) else ([] if isinstance(a[1], Unit) else [a[1]])
    return e.call_value(a[0], list(args))

# ---- opaque path values ---------------------------------------------------------------------------
@model('re:^<(std::path::)?PathBuf as From<.*>>::from$', 'PathBuf::from', 're:^<(std::path::)?PathBuf as FromStr>::from_str$', 'Path::new', 'Path::to_path_buf', 'Path::to_owned',
       're:^<(std::path::)?Path as ToOwned>::to_owned$', 're:^<(std::path::)?PathBuf as Clone>::clone$', 're:^<(std::path::)?PathBuf as Deref>::deref$',
       're:^<(std::path::)?PathBuf as AsRef<(std::path::)?Path>>::as_ref$', 'PathBuf::as_path', 're:^<(std::path::)?Path as AsRef<(std::path::)?Path>>::as_ref$')
def _(e, c, a, raw):
    v = deref(e, a[0])
    if isinstance(v, Opaque): r = v
    else: r = Opaque('Path', v)
    return OK(r) if c.endswith('from_str') else r
@model('Path::strip_prefix', 'PathBuf::strip_prefix', 're:^Path::strip_prefix::<.*>$')
def _(e, c, a, raw):
    """component-wise prefix removal, for a concrete single-component base without separators ('.', 'debian', ...)"""
    v = deref(e, a[0]); b = deref(e, a[1])
    pth = v.payload if isinstance(v, Opaque) else v
    base = b.payload if isinstance(b, Opaque) else b
    if not (isinstance(base, Str) and base.is_concrete()) or '/' in base.py() or base.py() == '': raise Unsupported('Path::strip_prefix with a symbolic or multi-component base')
    bs = [ord(x) for x in base.py()]; ch = list(pth.chars)
    if len(ch) < len(bs): return ERR(Agg('StripPrefixError', []))
    for x, y in zip(ch, bs):
        if not e.branch(s_eq(x, y)): return ERR(Agg('StripPrefixError', []))
    rest = ch[len(bs):]
    if rest:
        if not e.branch(s_eq(rest[0], 47)): return ERR(Agg('StripPrefixError', []))      # the base must end at a component boundary
        while rest and e.branch(s_eq(rest[0], 47)): rest = rest[1:]
    # further '.' components would be normalised away by Path: not modelled
    for i, x in enumerate(rest):
        if e.branch(s_eq(x, 46)) and (i == 0 or e.branch(s_eq(rest[i - 1], 47))) and (i + 1 == len(rest) or e.branch(s_eq(rest[i + 1], 47))):
            raise Unsupported('Path::strip_prefix: a "." component in the remainder')
    return OK(Opaque('Path', Str(rest)))
@model('Path::to_str', 'PathBuf::to_str')
def _(e, c, a, raw): return SOME(deref(e, a[0]).payload)
@model('Path::to_string_lossy', 'Path::display', 'PathBuf::display')
def _(e, c, a, raw):
    v = deref(e, a[0])
    return EnumV('Cow', 'Borrowed', [v.payload]) if c.endswith('lossy') else v
@model('re:^<(std::path::)?(PathBuf|Path) as PartialEq>::eq$')
def _(e, c, a, raw): return veq(e, a[0], a[1])

# ---- Cow --------------------------------------------------------------------------------------------
@model('re:^<Cow<.*> as Deref>::deref$', 're:^<Cow<.*> as AsRef<.*>>::as_ref$', 're:^<Cow<.*> as Borrow<.*>>::borrow$')
def _(e, c, a, raw):
    v = deref(e, a[0])
    if isinstance(v, Str): return v          # Cow<str> collapsed to the string itself
    inner = v.slots[0]
    if isinstance(inner, Ref): return inner
    if isinstance(inner, (Str,)): return inner
    return Ref(v.slots, [0])
@model('Cow::into_owned', 're:^Cow::<.*>::into_owned$', 're:^<Cow<.*> as Clone>::clone$', 'Cow::to_mut')
def _(e, c, a, raw):
    v = deref(e, a[0])
    if isinstance(v, Str): return v
    if c.endswith('clone'): return clone_val(e, v)
    return clone_val(e, e.deref(v.slots[0]))

# default trait methods that have no MIR body in the crates: PartialEq::ne, PartialOrd::{lt,le,gt,ge} via the local eq / partial_cmp
@model('re:^<.* as PartialEq(<.*>)?>::ne$')
def _(e, c, a, raw):
    return b_not(e.call_path(e._call_crate, raw[:-4] + '::eq', a))
@model('re:^<.* as PartialOrd(<.*>)?>::(lt|le|gt|ge)$')
def _(e, c, a, raw):
    op = raw.rsplit('::', 1)[1]
    r = e.call_path(e._call_crate, raw[:-len(op) - 2] + '::partial_cmp', a)
    if r.variant == 'None': return False
    v = r.slots[0].variant
    return {'lt': v == 'Less', 'le': v != 'Greater', 'gt': v == 'Greater', 'ge': v != 'Less'}[op]
