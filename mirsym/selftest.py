"""Self-test of the encoder: (1) concrete conformance - texts taken from the repository's own tests and a list of boundary strings are
pushed through the interpreted MIR and through the native build, observations must agree; (2) vacuity guard - a deliberately wrong
oracle must come back violated."""
import sys, os, re, json, time, glob
from . import mirdump, replay
from .engine import Engine, Program
from .values import *
from . import models_core, models_str, models_iter, models_fmt, models_rowan, models_ext, models_regex  # noqa


def repo_test_strings(limit=60):
    out = []
    for path in glob.glob(mirdump.REPO + '/src/*.rs') + glob.glob(mirdump.REPO + '/debian-control/src/lossless/relations.rs'):
        t = open(path).read()
        k = t.find('#[cfg(test)]')
        if k < 0: continue
        for m in re.finditer(r'r#"(.*?)"#', t[k:], re.S):
            if len(m.group(1)) <= 200: out.append(m.group(1))
        for m in re.finditer(r'"((?:[^"\\\n]|\\.){1,60})"', t[k:]):
            try: out.append(bytes(m.group(1), 'utf-8').decode('unicode_escape'))
            except Exception: pass
    seen = set(); res = []
    for s in out:
        if s not in seen and '\ufffd' not in s: seen.add(s); res.append(s)
    return res[:limit]


BOUNDARY = ['', '\n', 'a', 'a:', 'a: b', 'a: b\n', 'a:\n b\n', 'a: b\n\nc: d\n', '# c\na: b\n', 'a: b\n#c\n', '\u00f6', 'a:\n :x', ' a', '-a: b', 'a: b\r\n', 'a\tb: c',
            'a: b\n c\n\n\n#x\n\nd: e', 'a : b', 'a:b:c', '\t', 'a: \u00e9\n']
REL = ['', 'a', 'a, b', 'a | b', 'a (>= 1)', 'a:any (<< 2~1) [amd64 !i386] <x !y> <z>', '${misc:Depends}, a', 'a,', ', a', 'a (', 'a [', '$', '${', 'a <', 'a\n , b', 'a (= 1:2-3)']


def main():
    t0 = time.time()
    mirfiles, th, _ = mirdump.dump_all()
    prog = Program(mirfiles, mirdump.REPO)
    e = Engine(prog)
    rp = replay.Replay(replay.build()); e.native = rp
    bad = 0; n = 0
    def run(f):
        e.start_path([]); e.inputs = {}; e.fuel_limit = 500000
        try: return ('ok', f())
        except Panic as ex: return ('panic', str(ex))
        except Fuel: return ('fuel', None)
    from props.common import call_to_string
    for s in BOUNDARY + repo_test_strings():
        nat = rp.call({'op': 'deb822', 's': s, 'q': 'q'})
        st = Str([ord(c) for c in s])
        def f():
            r = e.call_path('deb822', 'lossless::Deb822::from_str_relaxed', [st])
            d, errs = r.slots
            text = call_to_string(e, 'deb822', 'lossless::Deb822', d)
            ly = e.call_path('deb822', '<lossy::Deb822 as FromStr>::from_str', [st])
            return text.py(), len(e.deref(errs).slots), ly.variant == 'Ok'
        kind, v = run(f); n += 1
        np = 'panic' in nat['relaxed'] or 'panic' in nat['lossy']
        if kind == 'panic' and np: continue
        if kind != 'ok' or np or v[0] != nat['relaxed']['text'] or v[1] != nat['relaxed']['nerrors'] or v[2] != nat['lossy']['ok']:
            bad += 1; print('selftest: deb822 conformance mismatch on %r: interpreter %r native %r' % (s, (kind, v), {k: nat[k] for k in ('relaxed', 'lossy')}))
    RL = 'lossless::relations::'
    for s in REL:
        nat = rp.call({'op': 'relations', 's': s})
        st = Str([ord(c) for c in s])
        def f():
            r = e.call_path('control', RL + 'Relations::parse_relaxed', [st, True])
            rel, errs = r.slots
            return call_to_string(e, 'control', RL + 'Relations', rel).py(), len(e.deref(errs).slots)
        kind, v = run(f); n += 1
        if nat.get('timeout') or 'crash' in nat:
            if kind != 'fuel': bad += 1; print('selftest: relations %r: native hangs, interpreter %s' % (s, kind))
            continue
        if kind != 'ok' or v[0] != nat['relaxed_true']['text'] or v[1] != nat['relaxed_true']['nerrors']:
            bad += 1; print('selftest: relations conformance mismatch on %r: %r vs %r' % (s, (kind, v), nat['relaxed_true']))
    # vacuity guard: an oracle that demands the reversed text must be violated on a 2-character input
    import z3
    e.start_path([]); e.inputs = {}
    c0, c1 = e.fresh_char('c'), e.fresh_char('c'); e.assume(c0 != c1); e.assume(z3.And(c0 > 64, c0 < 91, c1 > 96, c1 < 123))
    st = Str([c0, c1])
    r = e.call_path('deb822', 'lossless::Deb822::from_str_relaxed', [st])
    text = call_to_string(e, 'deb822', 'lossless::Deb822', r.slots[0])
    wrong = models_core.veq(e, text, Str([c1, c0]))
    if wrong is True or (wrong is not False and not e.check(z3.Not(wrong))):
        bad += 1; print('selftest: vacuity guard failed: a wrong oracle was not violated')
    rp.stop()
    print('selftest: %d conformance cases, %d problems, %.1fs' % (n, bad, time.time() - t0))
    return 0 if bad == 0 else 2


if __name__ == '__main__':
    sys.exit(main())
