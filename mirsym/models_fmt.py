"""Models: core::fmt (new byte-template Arguments lowering), ToString, Display of std types."""
import re
import z3
from .engine import model, turbofish, last_seg
from .values import *
from .models_core import deref, veq
from .models_str import S


class Fmt:
    """core::fmt::Formatter writing into a buffer"""
    def __init__(s): s.buf = []; s.alternate = False; s.width = None
    def clone_value(s, e): return s


class FmtArg:
    __slots__ = ('kind', 'val', 'ty')
    def __init__(s, kind, val, ty): s.kind = kind; s.val = val; s.ty = ty


class Arguments:
    __slots__ = ('template', 'args')
    def __init__(s, template, args): s.template = template; s.args = args


def decimal(e, v):
    """Display of an integer term -> Str (forks on the number of digits for symbolic values, <= 6 digits)"""
    if isinstance(v, bool): return mkstr('true' if v else 'false')
    if isinstance(v, int): return mkstr(str(v))
    if z3.is_bool(v): return mkstr('true') if e.branch(v) else mkstr('false')
    if e.branch(v < 0): raise Unsupported('Display of negative symbolic integer')
    nd = None
    for k in range(1, 8):
        if e.branch(v < 10 ** k): nd = k; break
    if nd is None: raise Unsupported('Display of symbolic integer >= 10^7')
    # digits as fresh terms tied to v
    ds = []
    for i in range(nd):
        d = e.fresh_int('dg'); e.assume(z3.And(d >= 0, d <= 9)); ds.append(d)
    tot = 0
    for d in ds: tot = tot * 10 + d
    e.assume(tot == v)
    if nd > 1: e.assume(ds[0] >= 1)
    return Str([d + 48 for d in ds])


def display_value(e, v, ty, f, debug=False):
    """write the Display (or Debug) rendering of value v (of static type ty, a string) into Fmt f"""
    d = e.deref(v)
    if isinstance(d, Str):
        if debug: f.buf.extend(mkstr('"').chars); f.buf.extend(d.chars); f.buf.extend(mkstr('"').chars)
        else: f.buf.extend(d.chars)
        return OK(UNIT)
    if isinstance(d, bool) or (is_sym(d) and z3.is_bool(d)) or isinstance(d, int) or is_sym(d):
        t = ty.replace('&', '').replace('mut ', '').strip()
        if t == 'char':
            if debug: f.buf.extend([39, d, 39])
            else: f.buf.append(d)
        else:
            f.buf.extend(decimal(e, d).chars)
        return OK(UNIT)
    if isinstance(d, EnumV) and d.ty == 'Cow': return display_value(e, d.slots[0], 'str', f, debug)
    if isinstance(d, BoxV): return display_value(e, d.slots[0], ty, f, debug)
    if isinstance(d, Arguments):
        write_args(e, f, d); return OK(UNIT)
    if hasattr(d, 'display'):
        f.buf.extend(d.display(e, debug)); return OK(UNIT)
    if isinstance(d, Opaque):
        f.buf.extend(opaque_display(e, d, debug)); return OK(UNIT)
    if debug and not isinstance(d, (Agg, EnumV)):
        f.buf.extend(mkstr('<debug>').chars); return OK(UNIT)
    t = re.sub(r"^(&(?:'\w+ )?(?:mut )?)+", '', ty.strip())
    trait = 'Debug' if debug else 'Display'
    if debug and isinstance(d, (Agg, EnumV)):
        # Debug output only feeds error messages; opaque
        try:
            ref = v if isinstance(v, Ref) else Ref([d], [0])
            return e.call_path(e._call_crate, '<%s as std::fmt::Debug>::fmt' % t, [e.deref1(ref) if isinstance(ref, Ref) else ref, Ref([f], [0])])
        except Unsupported:
            f.buf.extend(mkstr('<debug>').chars); return OK(UNIT)
    if isinstance(d, (Agg, EnumV)):
        ref = v if isinstance(v, Ref) else Ref([d], [0])
        return e.call_path(e._call_crate, '<%s as std::fmt::Display>::fmt' % t, [e.deref1(ref), Ref([f], [0])])
    raise Unsupported('Display of %s (%s)' % (type(d).__name__, ty))


def opaque_display(e, d, debug):
    p = d.payload
    if d.kind == 'Version':
        from .models_ext import version_display
        return version_display(e, d)
    if isinstance(p, Str): return list(p.chars)
    raise Unsupported('display of opaque ' + d.kind)


def write_args(e, f, args):
    t = args.template
    if isinstance(t, Str):
        f.buf.extend(t.chars); return
    bs = t; i = 0; argi = 0
    while True:
        b = bs[i]
        if b == 0: break
        if b < 0x80:
            lit = bytes(bs[i+1:i+1+b]).decode('utf-8'); f.buf.extend(ord(ch) for ch in lit); i += 1 + b; continue
        if b == 0x80:
            n = bs[i+1] | (bs[i+2] << 8)
            lit = bytes(bs[i+3:i+3+n]).decode('utf-8'); f.buf.extend(ord(ch) for ch in lit); i += 3 + n; continue
        if b >= 0xC0:
            i += 1; flags = None; width = None; prec = None
            if b & 1: flags = bs[i] | (bs[i+1] << 8) | (bs[i+2] << 16) | (bs[i+3] << 24); i += 4
            if b & 2: width = bs[i] | (bs[i+1] << 8); i += 2
            if b & 4: prec = bs[i] | (bs[i+1] << 8); i += 2
            if b & 8: argi = bs[i] | (bs[i+1] << 8); i += 2
            if b & 0x30: raise Unsupported('format width/precision from argument')
            arg = args.args[argi]; argi += 1
            sub = Fmt()
            if flags is not None:
                # bit 23 (0x800000) = alternate '#' in current std; fill/align in low bits -- only the plain default is encoded
                sub.alternate = bool(flags & (1 << 23))
            r = display_value(e, arg.val, arg.ty, sub, debug=(arg.kind == 'debug'))
            out = sub.buf
            if width is not None and len(out) < width:
                raise Unsupported('format width padding')
            if prec is not None: raise Unsupported('format precision')
            f.buf.extend(out)
            continue
        raise Unsupported('format template byte %#x' % b)


@model('Arguments::new', 'core::fmt::Arguments::new', 'std::fmt::Arguments::new')
def _(e, c, a, raw):
    t = e.deref(a[0]); args = e.deref(a[1])
    return Arguments(list(t.slots), list(args.slots))
@model('Arguments::from_str', 'Arguments::from_str_nonconst', 'core::fmt::Arguments::from_str', 'Arguments::new_const', 'core::fmt::rt::<impl Arguments<\'_>>::new_const')
def _(e, c, a, raw):
    v = e.deref(a[0])
    if isinstance(v, Str): return Arguments(v, [])
    return Arguments(Str(sum((list(e.deref(x).chars) for x in v.slots), [])), [])
@model('Arguments::as_str', 'Arguments::as_statically_known_str')
def _(e, c, a, raw):
    v = e.deref(a[0])
    return SOME(v.template) if isinstance(v.template, Str) else NONE()
@model('re:^core::fmt::rt::Argument::new_(display|debug|lower_hex|upper_hex)$', 're:^core::fmt::rt::<impl Argument<.*>>::new_(display|debug)$')
def _(e, c, a, raw):
    kind = c.rsplit('new_', 1)[1]
    if kind not in ('display', 'debug'): raise Unsupported('format trait ' + kind)
    tf = turbofish(raw)
    return FmtArg(kind, a[0], tf[0] if tf else '?')
@model('Formatter::write_str', 're:^<Formatter<.*> as (std::fmt::|core::fmt::)?Write>::write_str$')
def _(e, c, a, raw):
    f = e.deref(a[0]); f.buf.extend(S(e, a[1]).chars); return OK(UNIT)
@model('re:^<(std::string::)?String as (std::fmt::|core::fmt::)?Write>::write_str$')
def _(e, c, a, raw):
    cur = S(e, a[0]); e.set_ref(a[0], Str(cur.chars + S(e, a[1]).chars)); return OK(UNIT)
@model('re:^<(std::string::)?String as (std::fmt::|core::fmt::)?Write>::write_char$')
def _(e, c, a, raw):
    cur = S(e, a[0]); e.set_ref(a[0], Str(cur.chars + (a[1],))); return OK(UNIT)
@model('re:^<(std::string::)?String as (std::fmt::|core::fmt::)?Write>::write_fmt$')
def _(e, c, a, raw):
    f = Fmt(); write_args(e, f, e.deref(a[1]))
    cur = S(e, a[0]); e.set_ref(a[0], Str(cur.chars + tuple(f.buf))); return OK(UNIT)
@model('Formatter::write_char', 're:^<Formatter<.*> as (std::fmt::|core::fmt::)?Write>::write_char$')
def _(e, c, a, raw):
    f = e.deref(a[0]); f.buf.append(a[1]); return OK(UNIT)
@model('Formatter::write_fmt', 're:^<Formatter<.*> as (std::fmt::|core::fmt::)?Write>::write_fmt$')
def _(e, c, a, raw):
    f = e.deref(a[0]); write_args(e, f, e.deref(a[1])); return OK(UNIT)
@model('Formatter::alternate')
def _(e, c, a, raw): return e.deref(a[0]).alternate
@model('Formatter::pad')
def _(e, c, a, raw):
    f = e.deref(a[0]); f.buf.extend(S(e, a[1]).chars); return OK(UNIT)
@model('format', 'std::fmt::format', 'alloc::fmt::format', 'fmt::format')
def _(e, c, a, raw):
    f = Fmt(); write_args(e, f, e.deref(a[0])); return Str(f.buf)
@model('re:^(std|alloc|core)::fmt::format::format_inner$')
def _(e, c, a, raw):
    f = Fmt(); write_args(e, f, e.deref(a[0])); return Str(f.buf)
@model('std::fmt::write', 'core::fmt::write')
def _(e, c, a, raw): raise Unsupported('fmt::write to dyn Write')

@model('re:^<.* as ToString>::to_string$')
def _(e, c, a, raw):
    m = re.match(r'^<(.*) as ToString>::to_string$', raw, re.S)
    f = Fmt()
    r = display_value(e, a[0], m.group(1), f)
    if isinstance(r, EnumV) and r.variant == 'Err': raise Panic('a Display implementation returned an error unexpectedly')
    return Str(f.buf)
@model('re:^<(&)*(str|String|std::string::String|char|bool|usize|u\\d+|i\\d+|isize|Cow<.*>|Box<str>|&.*) as (std::fmt::|core::fmt::)?Display>::fmt$',
       're:^<(str|String|char|bool|usize|u\\d+|i\\d+|isize) as (std::fmt::|core::fmt::)?Display>::fmt$')
def _(e, c, a, raw):
    m = re.match(r'^<(.*) as (?:std::fmt::|core::fmt::)?Display>::fmt$', raw, re.S)
    return display_value(e, a[0], m.group(1), e.deref(a[1]))
@model('re:^<.* as (std::fmt::|core::fmt::)?Debug>::fmt$')
def _(e, c, a, raw):
    e.deref(a[1]).buf.extend(mkstr('<debug>').chars); return OK(UNIT)
@model('re:^Formatter::debug_(struct|tuple|list|map|set).*$', 're:^Formatter::<\'_>::debug_.*$', 're:^Debug(Struct|Tuple|List|Map|Set)::.*$')
def _(e, c, a, raw):
    if c.endswith('finish') or '_finish' in c:
        return OK(UNIT)
    if c.startswith('Formatter'):
        e.deref(a[0]).buf.extend(mkstr('<debug>').chars)
        return OK(UNIT) if 'finish' in c else a[0]
    return a[0]
@model('std::io::_print', 'std::io::_eprint', 'std::io::stdio::_print', 'std::io::stdio::_eprint')
def _(e, c, a, raw): return UNIT
