"""Model of the regex crate for the syntax subset the repository can produce: literals, \\-escapes of punctuation, '.', bracket classes
(with negation, ranges), greedy * + ?, groups, ^ $, alternation; leftmost-first backtracking semantics over symbolic characters.
Anything else is reported as unencoded."""
import z3
from .engine import model
from .values import *
from .models_core import deref, veq
from .models_str import S, boff

META = [ord(c) for c in '\\.+*?()|[]{}^$#&-~']


def is_meta(c):
    if isinstance(c, int): return c in META
    return z3.Or(*[c == m for m in META])


def perl_class(e, k, c):
    from .models_str import is_ws
    if k == 's': return is_ws(e, c)
    if not isinstance(c, int):
        if e.check(c >= 0x80): raise Unsupported('\\%s on a symbolic non-ASCII character' % k)
        dig = z3.And(c >= 48, c <= 57)
        return dig if k == 'd' else z3.Or(dig, z3.And(c >= 65, c <= 90), z3.And(c >= 97, c <= 122), c == 95)
    ch = chr(c)
    return ch.isdigit() if k == 'd' else (ch.isalnum() or ch == '_')


class RegexV:
    def __init__(s, ast, src): s.ast = ast; s.src = src
    def clone_value(s, e): return s


def parse_regex(e, chars):
    pos = [0]; n = len(chars); ngroups = [0]; flags = {}
    def peek(): return chars[pos[0]] if pos[0] < n else None
    def is_c(c, lit):
        if c is None: return False
        return e.branch(s_eq(c, ord(lit)))
    def alt():
        branches = [seq()]
        while peek() is not None and is_c(peek(), '|'):
            pos[0] += 1; branches.append(seq())
        return ('alt', branches) if len(branches) > 1 else branches[0]
    def seq():
        items = []
        while True:
            c = peek()
            if c is None or is_c(c, '|') or is_c(c, ')'): break
            a = atom()
            q = peek()
            if q is not None and is_c(q, '*'): pos[0] += 1; a = ('star', a, 0)
            elif q is not None and is_c(q, '+'): pos[0] += 1; a = ('star', a, 1)
            elif q is not None and is_c(q, '?'): pos[0] += 1; a = ('opt', a)
            if isinstance(a, tuple) and a[0] in ('star', 'opt') and peek() is not None and is_c(peek(), '?'):
                raise Unsupported('lazy quantifier')
            items.append(a)
        return ('seq', items)
    def atom():
        c = peek(); pos[0] += 1
        if is_c(c, '('):
            gi = None
            if peek() is not None and is_c(peek(), '?'):
                pos[0] += 1
                if isinstance(peek(), int) and peek() == ord('s') and pos[0] + 1 < n and isinstance(chars[pos[0] + 1], int) and chars[pos[0] + 1] == ord(')'):
                    pos[0] += 2; flags['s'] = True      # (?s): '.' also matches a newline, from here on
                    return ('seq', [])
                if not is_c(peek(), ':'): raise Unsupported('group flags')
                pos[0] += 1
            else:
                ngroups[0] += 1; gi = ngroups[0]
            r = alt()
            if not is_c(peek(), ')'): raise Panic('regex parse error: unclosed group')
            pos[0] += 1
            return ('group', r, gi)
        if is_c(c, '['): return klass()
        if is_c(c, '.'): return ('anynl',) if flags.get('s') else ('any',)
        if is_c(c, '^'): return ('bol',)
        if is_c(c, '$'): return ('eol',)
        if is_c(c, '\\'):
            d = peek()
            if d is None: raise Panic('regex parse error: trailing backslash')
            pos[0] += 1
            if isinstance(d, int) and chr(d) in 'sSdDwW': return ('class', chr(d).isupper(), [('perl', chr(d).lower())])
            if isinstance(d, int) and chr(d).isalnum(): raise Unsupported('regex escape \\%s' % chr(d))
            if not isinstance(d, int):
                if e.branch(z3.Or(z3.And(d >= 48, d <= 57), z3.And(d >= 65, d <= 90), z3.And(d >= 97, d <= 122))): raise Unsupported('regex class escape')
            return ('lit', d)
        if e.branch(is_meta(c)):
            # an unescaped meta character in literal position
            for lit in '{}':
                if is_c(c, lit): raise Unsupported('regex repetition braces')
            if is_c(c, '*') or is_c(c, '+') or is_c(c, '?'): raise Panic('regex parse error: repetition operator missing expression')
            if is_c(c, ')'): raise Panic('regex parse error: unopened group')
            return ('lit', c)      # ] # & - ~ are literals outside classes
        return ('lit', c)
    def klass():
        neg = False; items = []
        if is_c(peek(), '^'): neg = True; pos[0] += 1
        first = True
        while True:
            c = peek()
            if c is None: raise Panic('regex parse error: unclosed character class')
            pos[0] += 1
            if is_c(c, ']') and not first: break
            first = False
            if is_c(c, '\\'):
                c = peek(); pos[0] += 1
                if c is None: raise Panic('regex parse error')
                if isinstance(c, int) and chr(c) in 'sdw': items.append(('perl', chr(c))); continue
                if isinstance(c, int) and chr(c).isalnum(): raise Unsupported('regex class escape in bracket')
            elif is_c(c, '['): raise Unsupported('nested character class')
            if peek() is not None and is_c(peek(), '-') and pos[0] + 1 < n and not is_c(chars[pos[0] + 1], ']'):
                pos[0] += 1; hi = peek(); pos[0] += 1
                items.append(('range', c, hi))
            else:
                items.append(('ch', c))
        return ('class', neg, items)
    r = alt()
    if pos[0] < n:
        raise Panic('regex parse error: unopened group')
    return r


def match_node(e, node, chars, i, k):
    """continuation-passing backtracking matcher; k(j) -> result or None"""
    t = node[0]
    n = len(chars)
    if t == 'seq':
        items = node[1]
        def run(idx, j):
            if idx == len(items): return k(j)
            return match_node(e, items[idx], chars, j, lambda j2: run(idx + 1, j2))
        return run(0, i)
    if t == 'alt':
        for b in node[1]:
            r = match_node(e, b, chars, i, k)
            if r is not None: return r
        return None
    if t == 'group':
        gi = node[2]
        if gi is None or CAPS is None: return match_node(e, node[1], chars, i, k)
        def kk(j):
            old = CAPS[0].get(gi); CAPS[0][gi] = (i, j)
            r = k(j)
            if r is None:
                if old is None: CAPS[0].pop(gi, None)
                else: CAPS[0][gi] = old
            return r
        return match_node(e, node[1], chars, i, kk)
    if t == 'lit':
        if i < n and e.branch(s_eq(chars[i], node[1])): return k(i + 1)
        return None
    if t == 'anynl':
        return k(i + 1) if i < n else None
    if t == 'any':
        if i < n and not e.branch(s_eq(chars[i], 10)): return k(i + 1)
        return None
    if t == 'class':
        if i >= n: return None
        c = chars[i]; hit = False
        for it in node[2]:
            if it[0] == 'ch': cond = s_eq(c, it[1])
            elif it[0] == 'perl': cond = perl_class(e, it[1], c)
            else: cond = b_and(c >= it[1], c <= it[2])
            if e.branch(cond): hit = True; break
        if hit != node[1]: return k(i + 1)
        return None
    if t == 'bol': return k(i) if i == 0 else None
    if t == 'eol': return k(i) if i == n else None
    if t == 'opt':
        r = match_node(e, node[1], chars, i, k)
        if r is not None: return r
        return k(i)
    if t == 'star':
        sub = node[1]; mn = node[2]
        def rep(j, count):
            # greedy: try one more iteration first
            r = match_node(e, sub, chars, j, lambda j2: rep(j2, count + 1) if j2 > j else None)
            if r is not None: return r
            if count >= mn: return k(j)
            return None
        return rep(i, 0)
    raise Unsupported('regex node ' + t)


CAPS = None


def regex_find(e, rx, st, start=0, want_caps=False):
    global CAPS
    chars = st.chars
    for i in range(start, len(chars) + 1):
        CAPS = [{}] if want_caps else None
        try:
            r = match_node(e, rx.ast, chars, i, lambda j: (j,))
            caps = dict(CAPS[0]) if want_caps else None
        finally:
            CAPS = None
        if r is not None: return (i, r[0], caps) if want_caps else (i, r[0])
    return None


@model('regex::Regex::new', 'Regex::new')
def _(e, c, a, raw):
    st = S(e, a[0])
    try: ast = parse_regex(e, list(st.chars))
    except Panic as ex:
        return ERR(Agg('RegexError', [mkstr(str(ex))]))
    return OK(RegexV(ast, st))
@model('regex::Regex::is_match', 'Regex::is_match')
def _(e, c, a, raw): return regex_find(e, e.deref(a[0]), S(e, a[1])) is not None
@model('regex::Regex::find', 'Regex::find')
def _(e, c, a, raw):
    st = S(e, a[1]); r = regex_find(e, e.deref(a[0]), st)
    if r is None: return NONE()
    return SOME(Agg('Match', [st, r[0], r[1]]))
@model('regex::Match::start', 'Match::start', "Match::<'_>::start")
def _(e, c, a, raw):
    m = e.deref(a[0]); return boff(m.slots[0].chars, m.slots[1])
@model('regex::Match::end', 'Match::end')
def _(e, c, a, raw):
    m = e.deref(a[0]); return boff(m.slots[0].chars, m.slots[2])
@model('regex::Match::as_str', 'Match::as_str')
def _(e, c, a, raw):
    m = e.deref(a[0]); return Str(m.slots[0].chars[m.slots[1]:m.slots[2]])
@model('regex::escape', 'escape')
def _(e, c, a, raw):
    out = []
    for ch in S(e, a[0]).chars:
        if e.branch(is_meta(ch)): out.append(92)
        out.append(ch)
    return Str(out)
@model('re:^<regex::Error as (std::fmt::|core::fmt::)?(Display|Debug)>::fmt$')
def _(e, c, a, raw):
    e.deref(a[1]).buf.extend(mkstr('<regex error>').chars); return OK(UNIT)


@model('regex::Regex::captures', 'Regex::captures')
def _(e, c, a, raw):
    st = S(e, a[1]); r = regex_find(e, e.deref(a[0]), st, want_caps=True)
    if r is None: return NONE()
    groups = dict(r[2]); groups[0] = (r[0], r[1])
    return SOME(Agg('Captures', [st, groups]))
@model('regex::Captures::get', 'Captures::get', "Captures::<'_>::get")
def _(e, c, a, raw):
    cp = e.deref(a[0]); g = cp.slots[1].get(a[1])
    if g is None: return NONE()
    return SOME(Agg('Match', [cp.slots[0], g[0], g[1]]))
@model('re:^<(regex::)?Captures<.*> as Index<usize>>::index$')
def _(e, c, a, raw):
    cp = e.deref(a[0]); g = cp.slots[1].get(a[1])
    if g is None: raise Panic('no group at index %r' % (a[1],))
    return Str(cp.slots[0].chars[g[0]:g[1]])
