"""Models of external value types: debversion::Version (symbolic), url::Url / chrono::NaiveDate / regex (evaluated natively on
concretised arguments: the solver's model fixes the characters involved, the claim for such a path covers that value only)."""
import re
import z3
from .engine import model, turbofish, last_seg
from .values import *
from .models_core import deref, veq, clone_val
from .models_str import S
from .models_fmt import Fmt


def concretize_str(e, st):
    """fix every symbolic character of st to its value in the current model (recorded in the path condition)"""
    if st.is_concrete(): return st.py()
    m = e.get_model()
    out = []
    for c in st.chars:
        if isinstance(c, int): out.append(c); continue
        v = m.eval(c, model_completion=True).as_long()
        e.assume(c == v); out.append(v)
    e.concretised = getattr(e, 'concretised', 0) + 1
    return ''.join(chr(x) for x in out)


def native(e, req):
    rp = getattr(e, 'native', None)
    if rp is None: raise Unsupported('no native oracle attached')
    r = rp.call(dict(req, op='ext'))
    if 'error' in r or 'crash' in r or 'timeout' in r or 'panic' in r: raise Unsupported('native oracle failed: %r' % (r,))
    return r


# ---- debversion::Version (symbolic) ---------------------------------------------------------------------
def ver_char(c):
    if isinstance(c, int): return (48 <= c <= 57) or (65 <= c <= 90) or (97 <= c <= 122) or c in (46, 43, 58, 126, 45)
    return z3.Or(z3.And(c >= 48, c <= 57), z3.And(c >= 65, c <= 90), z3.And(c >= 97, c <= 122), c == 46, c == 43, c == 58, c == 126, c == 45)
def rev_char(c):
    if isinstance(c, int): return (48 <= c <= 57) or (65 <= c <= 90) or (97 <= c <= 122) or c in (46, 43, 126)
    return z3.Or(z3.And(c >= 48, c <= 57), z3.And(c >= 65, c <= 90), z3.And(c >= 97, c <= 122), c == 46, c == 43, c == 126)
def digit(c):
    if isinstance(c, int): return 48 <= c <= 57
    return z3.And(c >= 48, c <= 57)


def version_parse(e, st):
    """regex ^(?:(\\d+):)?([A-Za-z0-9.+:~-]+?)(?:-([A-Za-z0-9+.~]+))?$ ; returns Opaque('Version', (epoch|None, upstream, revision|None)) or None"""
    ch = list(st.chars); n = len(ch)
    if n == 0: return None
    for c in ch:
        if not e.branch(ver_char(c)): return None
    # epoch: leading digits followed by ':' with something after it
    k = 0
    while k < n and e.branch(digit(ch[k])): k += 1
    epoch = None; rest = ch
    if 0 < k < n - 1 and e.branch(s_eq(ch[k], 58)):
        epoch = ch[:k]; rest = ch[k+1:]
    # revision: the lazy upstream takes the FIRST '-' whose suffix is a valid revision ... (lazy +? then optional group, then $)
    up = rest; rev = None
    for i in range(1, len(rest)):
        if e.branch(s_eq(rest[i], 45)) and i + 1 < len(rest):
            ok = True
            for c in rest[i+1:]:
                if not e.branch(rev_char(c)): ok = False; break
            if ok: up = rest[:i]; rev = rest[i+1:]; break
    if epoch is not None and len(epoch) > 9:
        raise Unsupported('epoch longer than 9 digits (u32 overflow not modelled)')
    return Opaque('Version', Agg('tuple', [Str(epoch) if epoch is not None else None, Str(up), Str(rev) if rev is not None else None]))


def version_display(e, v):
    ep, up, rev = v.payload.slots
    out = []
    if ep is not None:
        d = list(ep.chars)
        while len(d) > 1 and e.branch(s_eq(d[0], 48)): d = d[1:]    # u32 Display drops leading zeros
        out += d + [58]
    out += list(up.chars)
    if rev is not None: out += [45] + list(rev.chars)
    return out


def V_(e, v):
    v = e.deref(v)
    if isinstance(v, EnumV) and v.ty == 'Cow': v = e.deref(v.slots[0])
    if isinstance(v, Opaque) and v.kind == 'Version': return v
    raise Unsupported('expected a Version')


@model('re:^<(debversion::)?Version as FromStr>::from_str$')
def _(e, c, a, raw):
    v = version_parse(e, S(e, a[0]))
    if v is None: return ERR(Agg('ParseError', [mkstr('Invalid version string')]))
    return OK(v)
@model('re:^<(debversion::)?Version as (std::fmt::|core::fmt::)?Display>::fmt$')
def _(e, c, a, raw):
    e.deref(a[1]).buf.extend(version_display(e, V_(e, a[0]))); return OK(UNIT)
@model('re:^<(debversion::)?Version as ToString>::to_string$')
def _(e, c, a, raw): return Str(version_display(e, V_(e, a[0])))
def version_hook_display(self, e, debug=False): return version_display(e, self)
@model('re:^<&?(debversion::)?Version as PartialEq(<&?(debversion::)?Version>)?>::(eq|ne)$')
def _(e, c, a, raw):
    r = version_cmp(e, V_(e, a[0]), V_(e, a[1])) == 0
    return r if c.endswith('eq') else (not r)
def _single_digit(e, v):
    """the digit d of a version that Debian ordering treats like the one-digit version d: optional zero epoch, leading zeros,
    optional revision 0 (the separators and zeros must be concrete, the digit may be symbolic)"""
    ep, up, rev = v.payload.slots
    if ep is not None and not all(isinstance(c, int) and c == 48 for c in ep.chars): return None
    if rev is not None and not (len(rev.chars) == 1 and isinstance(rev.chars[0], int) and rev.chars[0] == 48): return None
    ch = list(up.chars)
    while len(ch) > 1 and isinstance(ch[0], int) and ch[0] == 48: ch = ch[1:]
    if len(ch) != 1: return None
    c = ch[0]
    if isinstance(c, int): return c if 48 <= c <= 57 else None
    if e.check(z3.Not(z3.And(c >= 48, c <= 57))): return None
    return c


def version_cmp(e, x, y):
    """Debian ordering: single-digit versions are compared symbolically (digit order == Debian order);
    everything else is evaluated natively on concretised texts"""
    a, b = _single_digit(e, x), _single_digit(e, y)
    if a is not None and b is not None:
        if e.branch(a < b if (is_sym(a) or is_sym(b)) else a < b): return -1
        return 0 if e.branch(s_eq(a, b)) else 1
    sx = concretize_str(e, Str(version_display(e, x))); sy = concretize_str(e, Str(version_display(e, y)))
    r = native(e, {'fn': 'version_cmp', 's': sx, 't': sy})
    if not r.get('ok'): raise Unsupported('native version_cmp rejected %r / %r' % (sx, sy))
    return r['cmp']
@model('re:^<&?(debversion::)?Version as (Ord|PartialOrd)(<&?(debversion::)?Version>)?>::(cmp|partial_cmp)$')
def _(e, c, a, raw):
    r = EnumV('Ordering', {-1: 'Less', 0: 'Equal', 1: 'Greater'}[version_cmp(e, V_(e, a[0]), V_(e, a[1]))])
    return SOME(r) if c.endswith('partial_cmp') else r
@model('re:^<&?(debversion::)?Version as PartialOrd(<&?(debversion::)?Version>)?>::(lt|le|gt|ge)$')
def _(e, c, a, raw):
    r = version_cmp(e, V_(e, a[0]), V_(e, a[1])); op = c.rsplit('::', 1)[1]
    return {'lt': r < 0, 'le': r <= 0, 'gt': r > 0, 'ge': r >= 0}[op]
@model('re:^<(debversion::)?(ParseError|Version) as (std::fmt::|core::fmt::)?(Display|Debug)>::fmt$', 're:^<(debversion::)?ParseError as ToString>::to_string$')
def _(e, c, a, raw):
    if c.endswith('to_string'): return mkstr('<version parse error>')
    e.deref(a[1]).buf.extend(mkstr('<version parse error>').chars); return OK(UNIT)

# ---- url::Url (native, concretised) -------------------------------------------------------------------------
@model('re:^<(url::)?Url as FromStr>::from_str$', 'Url::parse', 'url::Url::parse')
def _(e, c, a, raw):
    s = concretize_str(e, S(e, a[0]))
    r = native(e, {'fn': 'url_parse', 's': s})
    if not r['ok']: return ERR(Agg('UrlParseError', [mkstr(r.get('err', ''))]))
    return OK(Opaque('Url', mkstr(r['text'])))
@model('Url::as_str', 'url::Url::as_str', 're:^<(url::)?Url as ToString>::to_string$', 're:^<(url::)?Url as Into<String>>::into$', 're:^<String as From<(url::)?Url>>::from$',
       're:^<(url::)?Url as AsRef<str>>::as_ref$')
def _(e, c, a, raw): return e.deref(a[0]).payload
@model('re:^<(url::)?Url as (std::fmt::|core::fmt::)?Display>::fmt$')
def _(e, c, a, raw):
    e.deref(a[1]).buf.extend(e.deref(a[0]).payload.chars); return OK(UNIT)
@model('re:^<(url::)?ParseError as (std::fmt::|core::fmt::)?(Display|Debug)>::fmt$', 're:^<(chrono::)?(format::)?ParseError as (std::fmt::|core::fmt::)?(Display|Debug)>::fmt$',
       're:^<(std::num::|core::num::)?(ParseIntError|ParseFloatError|IntErrorKind) as (std::fmt::|core::fmt::)?(Display|Debug)>::fmt$',
       're:^<(std::str::|core::str::)?(ParseBoolError|Utf8Error) as (std::fmt::|core::fmt::)?(Display|Debug)>::fmt$',
       're:^<(std::io::)?Error as (std::fmt::|core::fmt::)?(Display|Debug)>::fmt$', 're:^<(std::char::|core::char::)?ParseCharError as (std::fmt::|core::fmt::)?(Display|Debug)>::fmt$')
def _(e, c, a, raw):
    e.deref(a[1]).buf.extend(mkstr('<error>').chars); return OK(UNIT)
@model('re:^<(url::ParseError|chrono::ParseError|chrono::format::ParseError|ParseIntError|std::num::ParseIntError|core::num::ParseIntError|ParseBoolError) as ToString>::to_string$')
def _(e, c, a, raw): return mkstr('<error>')

# ---- chrono::NaiveDate (native, concretised) -------------------------------------------------------------------
@model('NaiveDate::parse_from_str', 'chrono::NaiveDate::parse_from_str')
def _(e, c, a, raw):
    s = concretize_str(e, S(e, a[0])); fmt = concretize_str(e, S(e, a[1]))
    r = native(e, {'fn': 'date_parse', 's': s, 'fmt': fmt})
    if not r['ok']: return ERR(Agg('ChronoParseError', []))
    return OK(Opaque('NaiveDate', mkstr(r['text'])))
@model('re:^<(chrono::)?NaiveDate as FromStr>::from_str$')
def _(e, c, a, raw):
    s = concretize_str(e, S(e, a[0]))
    r = native(e, {'fn': 'date_parse', 's': s, 'fmt': '%Y-%m-%d'})
    if not r['ok']: return ERR(Agg('ChronoParseError', []))
    return OK(Opaque('NaiveDate', mkstr(r['text'])))
@model('NaiveDate::format', 'chrono::NaiveDate::format')
def _(e, c, a, raw):
    d = e.deref(a[0]); fmt = concretize_str(e, S(e, a[1]))
    r = native(e, {'fn': 'date_format', 's': d.payload.py(), 'fmt': fmt})
    if not r['ok']: raise Unsupported('native date_format failed')
    return Opaque('DelayedFormat', mkstr(r['text']))
@model('re:^<(chrono::)?NaiveDate as ToString>::to_string$', 're:^<(chrono::format::)?DelayedFormat<.*> as ToString>::to_string$')
def _(e, c, a, raw): return e.deref(a[0]).payload
@model('re:^<(chrono::)?NaiveDate as (std::fmt::|core::fmt::)?Display>::fmt$', 're:^<(chrono::format::)?DelayedFormat<.*> as (std::fmt::|core::fmt::)?Display>::fmt$')
def _(e, c, a, raw):
    e.deref(a[1]).buf.extend(e.deref(a[0]).payload.chars); return OK(UNIT)


# ---- chrono::DateTime<FixedOffset> (native, concretised) -----------------------------------------------------------
@model('DateTime::parse_from_rfc2822', 'chrono::DateTime::parse_from_rfc2822', 're:^DateTime::<.*>::parse_from_rfc2822$')
def _(e, c, a, raw):
    s = concretize_str(e, S(e, a[0]))
    r = native(e, {'fn': 'dt_parse', 's': s})
    if not r['ok']: return ERR(Agg('ChronoParseError', []))
    return OK(Opaque('DateTime', mkstr(r['text'])))
@model('DateTime::to_rfc2822', 're:^DateTime::<.*>::to_rfc2822$')
def _(e, c, a, raw): return e.deref(a[0]).payload
