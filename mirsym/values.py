"""Value model of the mirsym interpreter."""
import z3


class Panic(Exception):
    """the interpreted program panics (a definite outcome of the path)"""
    def __init__(self, msg, where=None):
        Exception.__init__(self, msg); self.where = where


class Unsupported(Exception):
    """the path reaches something the encoder has no body or model for (path is 'unencoded')"""


class Fuel(Exception):
    pass


class Infeasible(Exception):
    pass


class Agg:
    __slots__ = ('ty', 'slots')
    def __init__(self, ty, slots): self.ty = ty; self.slots = slots
    def __repr__(self): return '%s%r' % (self.ty, self.slots)


class EnumV:
    """variant: str, or a z3 Int term (symbolic discriminant of a field-less enum)"""
    __slots__ = ('ty', 'variant', 'slots')
    def __init__(self, ty, variant, slots=None): self.ty = ty; self.variant = variant; self.slots = slots if slots is not None else []
    def __repr__(self): return '%s::%s%s' % (self.ty, self.variant, self.slots if self.slots else '')


class Ref:
    __slots__ = ('root', 'path')
    def __init__(self, root, path): self.root = root; self.path = path
    def __repr__(self): return '&%r' % (self.path,)


class Str:
    """immutable string: tuple of chars (int code point or z3 Int term)"""
    __slots__ = ('chars',)
    def __init__(self, chars): self.chars = tuple(chars)
    def __repr__(self):
        return 'Str(' + ''.join(chr(c) if isinstance(c, int) else '¿' for c in self.chars) + ')'
    def is_concrete(self): return all(isinstance(c, int) for c in self.chars)
    def py(self): return ''.join(chr(c) for c in self.chars)


class VecV:
    __slots__ = ('slots', 'kind')
    def __init__(self, items, kind='Vec'): self.slots = list(items); self.kind = kind
    def __repr__(self): return '%s%r' % (self.kind, self.slots)


class BoxV:
    __slots__ = ('slots',)
    def __init__(self, v): self.slots = [v]
    def __repr__(self): return 'Box(%r)' % (self.slots[0],)


class Closure:
    __slots__ = ('fn', 'slots')
    def __init__(self, fn, slots): self.fn = fn; self.slots = slots
    def __repr__(self): return 'Closure(%s)' % self.fn.name


class FnItem:
    __slots__ = ('name', 'crate', 'subst')
    def __init__(self, name, crate=None, subst=None): self.name = name; self.crate = crate; self.subst = subst
    def __repr__(self): return 'FnItem(%s)' % self.name


class PyFn:
    """a harness-supplied callable usable where the program expects a closure"""
    __slots__ = ('f',)
    def __init__(self, f): self.f = f


class Unit:
    def __repr__(self): return '()'
    def __eq__(self, o): return isinstance(o, Unit)
    def __hash__(self): return 0


UNIT = Unit()


class Opaque:
    """lawful opaque external value (Version, Url, ...): identified by kind + payload"""
    __slots__ = ('kind', 'payload')
    def __init__(self, kind, payload): self.kind = kind; self.payload = payload
    def __repr__(self): return '%s(%r)' % (self.kind, self.payload)


def mkstr(s): return Str([ord(c) for c in s])
def NONE(): return EnumV('Option', 'None', [])
def SOME(v): return EnumV('Option', 'Some', [v])
def OK(v): return EnumV('Result', 'Ok', [v])
def ERR(v): return EnumV('Result', 'Err', [v])


STD_VARIANTS = {
    'Option': ['None', 'Some'], 'Result': ['Ok', 'Err'], 'ControlFlow': ['Continue', 'Break'],
    'NodeOrToken': ['Node', 'Token'], 'Ordering': ['Less', 'Equal', 'Greater'], 'Cow': ['Borrowed', 'Owned'],
    'Direction': ['Next', 'Prev'], 'WalkEvent': ['Enter', 'Leave'], 'Bound': ['Included', 'Excluded', 'Unbounded'],
}
STD_DISCR = {('Ordering', 'Less'): -1, ('Ordering', 'Equal'): 0, ('Ordering', 'Greater'): 1}


def is_sym(v): return isinstance(v, z3.ExprRef)


ASCII_TERMS = {}        # id -> z3 term known (assumed by the harness) to be < 0x80; holding the term keeps its id unique
_W_CACHE = {}


def mark_ascii(c):
    if not isinstance(c, int): ASCII_TERMS[c.get_id()] = c


def utf8w(c):
    if isinstance(c, int):
        return 1 if c < 0x80 else 2 if c < 0x800 else 3 if c < 0x10000 else 4
    i = c.get_id()
    if i in ASCII_TERMS: return 1
    r = _W_CACHE.get(i)
    if r is None:
        r = z3.If(c < 0x80, 1, z3.If(c < 0x800, 2, z3.If(c < 0x10000, 3, 4)))
        if len(_W_CACHE) > 20000: _W_CACHE.clear()
        _W_CACHE[i] = (r, c)
        return r
    return r[0]


def ssum(xs):
    tot = 0; syms = []
    for x in xs:
        if isinstance(x, int): tot += x
        else: syms.append(x)
    if not syms: return tot
    r = syms[0]
    for x in syms[1:]: r = r + x
    if tot: r = r + tot
    return r


def char_ok(c):
    return z3.And(c >= 0, c <= 0x10FFFF, z3.Or(c < 0xD800, c > 0xDFFF))


def b_not(x):
    if isinstance(x, bool): return not x
    return z3.Not(x)


def b_and(*xs):
    out = []
    for x in xs:
        if x is False: return False
        if x is True: continue
        out.append(x)
    if not out: return True
    if len(out) == 1: return out[0]
    return z3.And(*out)


def b_or(*xs):
    out = []
    for x in xs:
        if x is True: return True
        if x is False: continue
        out.append(x)
    if not out: return False
    if len(out) == 1: return out[0]
    return z3.Or(*out)


def s_eq(a, b):
    """equality of two scalar values (int / z3) -> bool or z3 Bool"""
    if a is b: return True
    if isinstance(a, (int, bool)) and isinstance(b, (int, bool)): return a == b
    return a == b
