"""Models: str / String / char."""
import re
import z3
from .engine import model, turbofish, last_seg
from .values import *
from .models_core import deref, veq, clone_val


def S(e, v):
    v = e.deref(v)
    if isinstance(v, Str): return v
    if isinstance(v, EnumV) and v.ty == 'Cow': return S(e, v.slots[0])
    if isinstance(v, BoxV): return S(e, v.slots[0])
    raise Unsupported('expected a string, got %s' % type(v).__name__)


def byte_len(st): return ssum([utf8w(c) for c in st.chars])


def char_at_boundary(e, st, k, what='byte index'):
    """byte offset k (int or symbolic) -> char index; Panics like the real slicing when k is not a boundary"""
    n = len(st.chars)
    if isinstance(k, int):
        pos = 0; i = 0
        while i < n and isinstance(st.chars[i], int) and pos < k:
            pos += utf8w(st.chars[i]); i += 1
        if pos == k: return i
        if i == n or (isinstance(st.chars[i], int)):
            raise Panic('%s %d is not a char boundary / out of range' % (what, k))
    pref = [0]
    for ch in st.chars: pref.append(pref[-1] + utf8w(ch))
    i = e.concretize(k, pref)
    if i is None: raise Panic('%s is not a char boundary / out of range' % what)
    return i


def ceq(e, x, y):
    return s_eq(x, y)


class Pattern:
    """match_at(i) -> number of chars matched at char position i, or None (forks)"""
    def __init__(self, e, pat):
        self.e = e
        p = e.deref(pat) if isinstance(pat, Ref) else pat
        self.kind = None
        if isinstance(p, (Closure, FnItem, PyFn)): self.kind = 'fn'; self.p = p
        elif isinstance(p, int) or is_sym(p): self.kind = 'char'; self.p = p
        elif isinstance(p, Str): self.kind = 'str'; self.p = p
        elif isinstance(p, (Agg, VecV)) and p.ty in ('array', 'slice') if isinstance(p, Agg) else isinstance(p, VecV):
            self.kind = 'set'; self.p = list(p.slots)
        else: raise Unsupported('string pattern ' + repr(p))

    def match_at(self, chars, i):
        e = self.e
        if self.kind == 'str':
            n = len(self.p.chars)
            if i + n > len(chars): return None
            for x, y in zip(chars[i:i+n], self.p.chars):
                if not e.branch(ceq(e, x, y)): return None
            return n
        if i >= len(chars): return None
        ch = chars[i]
        if self.kind == 'char':
            return 1 if e.branch(ceq(e, ch, self.p)) else None
        if self.kind == 'fn':
            return 1 if e.branch(e.call_value(self.p, [ch])) else None
        if self.kind == 'set':
            for q in self.p:
                if e.branch(ceq(e, ch, q)): return 1
            return None

    def empty(self): return self.kind == 'str' and len(self.p.chars) == 0


def find_from(e, chars, pat, start=0):
    """leftmost match position (char index, length) at or after start, or None"""
    if pat.empty(): return (start, 0)
    i = start
    while i < len(chars):
        n = pat.match_at(chars, i)
        if n is not None: return (i, n)
        i += 1
    return None


def rfind(e, chars, pat):
    if pat.empty(): return (len(chars), 0)
    i = len(chars) - 1
    while i >= 0:
        n = pat.match_at(chars, i)
        if n is not None: return (i, n)
        i -= 1
    return None


def boff(chars, i): return ssum([utf8w(c) for c in chars[:i]])


def is_ws(e, c):
    """char::is_whitespace (White_Space property)"""
    if isinstance(c, int):
        return c in (9, 10, 11, 12, 13, 32, 0x85, 0xA0, 0x1680, 0x2028, 0x2029, 0x202F, 0x205F, 0x3000) or 0x2000 <= c <= 0x200A
    return z3.Or(z3.And(c >= 9, c <= 13), c == 32, c == 0x85, c == 0xA0, c == 0x1680, z3.And(c >= 0x2000, c <= 0x200A),
                 c == 0x2028, c == 0x2029, c == 0x202F, c == 0x205F, c == 0x3000)


def is_ascii_ws(c):
    if isinstance(c, int): return c in (9, 10, 12, 13, 32)
    return z3.Or(c == 9, c == 10, c == 12, c == 13, c == 32)


# ---- basic ------------------------------------------------------------------------------
@model('core::str::<impl str>::chars')
def _(e, c, a, raw):
    from .models_iter import ListIter
    it = ListIter(list(S(e, a[0]).chars)); it.is_chars = True; return it
@model('core::str::<impl str>::char_indices')
def _(e, c, a, raw):
    from .models_iter import ListIter
    st = S(e, a[0]); out = []; off = 0
    for ch in st.chars:
        out.append(Agg('tuple', [off, ch])); off = off + utf8w(ch)
    return ListIter(out)
@model('core::str::<impl str>::bytes', 'core::str::<impl str>::as_bytes', 'String::as_bytes', 'String::into_bytes')
def _(e, c, a, raw):
    st = S(e, a[0])
    if not st.is_concrete():
        # bytes of a symbolic string: only ASCII strings are encoded
        for ch in st.chars:
            if is_sym(ch) and e.check(ch >= 0x80): raise Unsupported('bytes of a symbolic non-ASCII string')
        bs = list(st.chars)
    else:
        bs = list(st.py().encode('utf-8'))
    if c.endswith('::bytes'):
        from .models_iter import ListIter
        return ListIter(bs)
    return VecV(bs, 'bytes')
@model('core::str::<impl str>::len', 'String::len')
def _(e, c, a, raw): return byte_len(S(e, a[0]))
@model('core::str::<impl str>::is_empty', 'String::is_empty')
def _(e, c, a, raw): return len(S(e, a[0]).chars) == 0
@model('core::str::<impl str>::split_at')
def _(e, c, a, raw):
    st = S(e, a[0]); i = char_at_boundary(e, st, a[1], 'split_at')
    return Agg('tuple', [Str(st.chars[:i]), Str(st.chars[i:])])
@model('core::str::<impl str>::split_at_checked')
def _(e, c, a, raw):
    st = S(e, a[0])
    try: i = char_at_boundary(e, st, a[1])
    except Panic: return NONE()
    return SOME(Agg('tuple', [Str(st.chars[:i]), Str(st.chars[i:])]))
@model('core::str::<impl str>::is_char_boundary')
def _(e, c, a, raw):
    st = S(e, a[0])
    try: char_at_boundary(e, st, a[1]); return True
    except Panic: return False

@model('re:^<(str|String) as Index(Mut)?<.*Range.*>>::index(_mut)?$', 're:^core::str::traits::<impl Index<.*> for str>::index$',
       're:^core::str::traits::<impl SliceIndex<str> for .*>::index$')
def _(e, c, a, raw):
    st = S(e, a[0]); r = a[1]
    return str_slice(e, st, r)

def str_slice(e, st, r):
    ty = r.ty if isinstance(r, Agg) else None
    if ty == 'RangeFull' or (isinstance(r, Agg) and not r.slots): return st
    if ty == 'RangeFrom':
        i = char_at_boundary(e, st, r.slots[0], 'slice start'); return Str(st.chars[i:])
    if ty == 'RangeTo':
        j = char_at_boundary(e, st, r.slots[0], 'slice end'); return Str(st.chars[:j])
    if ty == 'Range':
        lo, hi = r.slots[0], r.slots[1]
        if not e.branch(lo <= hi if (is_sym(lo) or is_sym(hi)) else lo <= hi): raise Panic('slice index starts after end')
        i = char_at_boundary(e, st, lo, 'slice start'); j = char_at_boundary(e, st, hi, 'slice end')
        return Str(st.chars[i:j])
    if ty == 'RangeInclusive':
        lo, hi = r.slots[0], r.slots[1]
        i = char_at_boundary(e, st, lo, 'slice start'); j = char_at_boundary(e, st, hi + 1, 'slice end')
        if i > j: raise Panic('slice index starts after end')
        return Str(st.chars[i:j])
    if ty == 'RangeToInclusive':
        j = char_at_boundary(e, st, r.slots[0] + 1, 'slice end'); return Str(st.chars[:j])
    raise Unsupported('str index by ' + repr(r))

@model('core::str::<impl str>::get')
def _(e, c, a, raw):
    st = S(e, a[0])
    try: return SOME(str_slice(e, st, a[1]))
    except Panic: return NONE()

@model('core::str::<impl str>::find')
def _(e, c, a, raw):
    st = S(e, a[0]); r = find_from(e, st.chars, Pattern(e, a[1]))
    return NONE() if r is None else SOME(boff(st.chars, r[0]))
@model('core::str::<impl str>::rfind')
def _(e, c, a, raw):
    st = S(e, a[0]); r = rfind(e, st.chars, Pattern(e, a[1]))
    return NONE() if r is None else SOME(boff(st.chars, r[0]))
@model('core::str::<impl str>::contains')
def _(e, c, a, raw):
    st = S(e, a[0]); return find_from(e, st.chars, Pattern(e, a[1])) is not None
@model('core::str::<impl str>::starts_with', 'String::starts_with')
def _(e, c, a, raw):
    st = S(e, a[0]); p = Pattern(e, a[1])
    if p.empty(): return True
    return p.match_at(st.chars, 0) is not None
@model('core::str::<impl str>::ends_with')
def _(e, c, a, raw):
    st = S(e, a[0]); p = Pattern(e, a[1])
    if p.empty(): return True
    n = len(p.p.chars) if p.kind == 'str' else 1
    if len(st.chars) < n: return False
    return p.match_at(st.chars, len(st.chars) - n) is not None
@model('core::str::<impl str>::strip_prefix')
def _(e, c, a, raw):
    st = S(e, a[0]); p = Pattern(e, a[1])
    if p.empty(): return SOME(st)
    n = p.match_at(st.chars, 0)
    return NONE() if n is None else SOME(Str(st.chars[n:]))
@model('core::str::<impl str>::strip_suffix')
def _(e, c, a, raw):
    st = S(e, a[0]); p = Pattern(e, a[1])
    if p.empty(): return SOME(st)
    n = len(p.p.chars) if p.kind == 'str' else 1
    if len(st.chars) < n: return NONE()
    k = p.match_at(st.chars, len(st.chars) - n)
    return NONE() if k is None else SOME(Str(st.chars[:len(st.chars) - n]))

def split_generic(e, st, pat, limit=None, inclusive=False, terminator=False):
    parts = []; start = 0; chars = st.chars
    if pat.empty(): raise Unsupported('split on empty pattern')
    i = 0
    while True:
        if limit is not None and len(parts) == limit - 1: break
        r = find_from(e, chars, pat, i)
        if r is None: break
        pos, n = r
        parts.append(Str(chars[start:pos + (n if inclusive else 0)]))
        start = pos + n; i = start
    last = Str(chars[start:])
    if (terminator or inclusive) and len(last.chars) == 0: pass
    else: parts.append(last)
    return parts

@model('core::str::<impl str>::split')
def _(e, c, a, raw):
    from .models_iter import ListIter
    return ListIter(split_generic(e, S(e, a[0]), Pattern(e, a[1])))
@model('core::str::<impl str>::split_terminator')
def _(e, c, a, raw):
    from .models_iter import ListIter
    return ListIter(split_generic(e, S(e, a[0]), Pattern(e, a[1]), terminator=True))
@model('core::str::<impl str>::split_inclusive')
def _(e, c, a, raw):
    from .models_iter import ListIter
    return ListIter(split_generic(e, S(e, a[0]), Pattern(e, a[1]), inclusive=True))
@model('core::str::<impl str>::splitn')
def _(e, c, a, raw):
    from .models_iter import ListIter
    n = a[1]
    if is_sym(n): raise Unsupported('splitn symbolic n')
    if n == 0: return ListIter([])
    return ListIter(split_generic(e, S(e, a[0]), Pattern(e, a[2]), limit=n))
@model('core::str::<impl str>::rsplitn')
def _(e, c, a, raw):
    from .models_iter import ListIter
    n = a[1]; st = S(e, a[0]); pat = Pattern(e, a[2])
    if n == 0: return ListIter([])
    parts = []; end = len(st.chars)
    while len(parts) < n - 1:
        r = rfind(e, st.chars[:end], pat)
        if r is None: break
        parts.append(Str(st.chars[r[0] + r[1]:end])); end = r[0]
    parts.append(Str(st.chars[:end]))
    return ListIter(parts)
@model('core::str::<impl str>::rsplit')
def _(e, c, a, raw):
    from .models_iter import ListIter
    return ListIter(list(reversed(split_generic(e, S(e, a[0]), Pattern(e, a[1])))))
@model('core::str::<impl str>::split_once')
def _(e, c, a, raw):
    st = S(e, a[0]); r = find_from(e, st.chars, Pattern(e, a[1]))
    if r is None: return NONE()
    return SOME(Agg('tuple', [Str(st.chars[:r[0]]), Str(st.chars[r[0] + r[1]:])]))
@model('core::str::<impl str>::rsplit_once')
def _(e, c, a, raw):
    st = S(e, a[0]); r = rfind(e, st.chars, Pattern(e, a[1]))
    if r is None: return NONE()
    return SOME(Agg('tuple', [Str(st.chars[:r[0]]), Str(st.chars[r[0] + r[1]:])]))
@model('core::str::<impl str>::split_whitespace')
def _(e, c, a, raw):
    from .models_iter import ListIter
    st = S(e, a[0]); parts = []; cur = []
    for ch in st.chars:
        if e.branch(is_ws(e, ch)):
            if cur: parts.append(Str(cur)); cur = []
        else: cur.append(ch)
    if cur: parts.append(Str(cur))
    return ListIter(parts)
@model('core::str::<impl str>::split_ascii_whitespace')
def _(e, c, a, raw):
    from .models_iter import ListIter
    st = S(e, a[0]); parts = []; cur = []
    for ch in st.chars:
        if e.branch(is_ascii_ws(ch)):
            if cur: parts.append(Str(cur)); cur = []
        else: cur.append(ch)
    if cur: parts.append(Str(cur))
    return ListIter(parts)

def lines_of(e, st):
    """str::lines: split_inclusive('\\n'), strip the '\\n' and one '\\r' before it"""
    out = []; cur = []
    chars = st.chars; n = len(chars)
    for i, ch in enumerate(chars):
        if e.branch(ceq(e, ch, 10)):
            if cur and e.branch(ceq(e, cur[-1], 13)): cur = cur[:-1]
            out.append(Str(cur)); cur = []
        else: cur.append(ch)
    if cur:
        # last line without '\n': a trailing bare '\r' is NOT stripped ... (std: strip_suffix('\n') first, then '\r' only if '\n' was stripped)
        out.append(Str(cur))
    return out
@model('core::str::<impl str>::lines')
def _(e, c, a, raw):
    from .models_iter import ListIter
    return ListIter(lines_of(e, S(e, a[0])))

def trim_start_i(e, chars, pred):
    i = 0
    while i < len(chars) and e.branch(pred(chars[i])): i += 1
    return i
def trim_end_i(e, chars, pred, lo=0):
    j = len(chars)
    while j > lo and e.branch(pred(chars[j-1])): j -= 1
    return j
@model('core::str::<impl str>::trim')
def _(e, c, a, raw):
    st = S(e, a[0]); i = trim_start_i(e, st.chars, lambda ch: is_ws(e, ch)); j = trim_end_i(e, st.chars, lambda ch: is_ws(e, ch), i)
    return Str(st.chars[i:j])
@model('core::str::<impl str>::trim_start', 'core::str::<impl str>::trim_left')
def _(e, c, a, raw):
    st = S(e, a[0]); i = trim_start_i(e, st.chars, lambda ch: is_ws(e, ch)); return Str(st.chars[i:])
@model('core::str::<impl str>::trim_end', 'core::str::<impl str>::trim_right')
def _(e, c, a, raw):
    st = S(e, a[0]); j = trim_end_i(e, st.chars, lambda ch: is_ws(e, ch)); return Str(st.chars[:j])
def pat_pred(e, pat):
    p = Pattern(e, pat)
    if p.kind == 'str': raise Unsupported('trim_matches with &str pattern')
    return lambda ch: (p.match_at((ch,), 0) is not None)
@model('core::str::<impl str>::trim_matches')
def _(e, c, a, raw):
    st = S(e, a[0]); pr = pat_pred(e, a[1]); i = trim_start_i(e, st.chars, pr); j = trim_end_i(e, st.chars, pr, i)
    return Str(st.chars[i:j])
@model('core::str::<impl str>::trim_start_matches', 'core::str::<impl str>::trim_left_matches')
def _(e, c, a, raw):
    st = S(e, a[0]); p = Pattern(e, a[1])
    if p.kind == 'str':
        i = 0; n = len(p.p.chars)
        if n == 0: return st
        while p.match_at(st.chars, i) is not None: i += n
        return Str(st.chars[i:])
    i = trim_start_i(e, st.chars, pat_pred(e, a[1])); return Str(st.chars[i:])
@model('core::str::<impl str>::trim_end_matches', 'core::str::<impl str>::trim_right_matches')
def _(e, c, a, raw):
    st = S(e, a[0]); p = Pattern(e, a[1])
    if p.kind == 'str':
        j = len(st.chars); n = len(p.p.chars)
        if n == 0: return st
        while j - n >= 0 and p.match_at(st.chars, j - n) is not None: j -= n
        return Str(st.chars[:j])
    j = trim_end_i(e, st.chars, pat_pred(e, a[1])); return Str(st.chars[:j])

@model('re:^<(str|String|&str|&String|&mut str|Cow<.*str>|Box<str>) as ToString>::to_string$', 'String::as_str', 'String::as_mut_str',
       're:^<(std::string::)?String as Deref(Mut)?>::deref(_mut)?$', 're:^<(std::string::)?String as Clone>::clone$',
       'core::str::<impl str>::to_string', 're:^alloc::str::<impl ToOwned for str>::to_owned$', 're:^<str as ToOwned>::to_owned$',
       're:^alloc::str::<impl str>::to_owned$', 'core::str::<impl str>::to_owned', 'String::into_boxed_str', 're:^<Box<str> as Clone>::clone$',
       'alloc::str::<impl str>::into_string', 'String::into_string', 're:^<Cow<.*str> as Deref>::deref$', 'Cow::into_owned',
       're:^<(str|String) as AsRef<str>>::as_ref$', 're:^<(str|String) as Borrow<str>>::borrow$', 'core::str::<impl str>::as_str',
       're:^<(std::string::)?String as AsRef<(std::path::)?Path>>::as_ref$', 're:^<str as AsRef<(std::path::)?Path>>::as_ref$',
       're:^<Cow<.*str> as ToString>::to_string$', 'String::leak', 're:^<(std::string::)?String as Borrow<str>>::borrow$')
def _(e, c, a, raw): return S(e, a[0])
@model('String::new')
def _(e, c, a, raw): return Str(())
@model('String::with_capacity')
def _(e, c, a, raw): return Str(())
@model('String::push_str')
def _(e, c, a, raw):
    cur = S(e, a[0]); e.set_ref(a[0], Str(cur.chars + S(e, a[1]).chars)); return UNIT
@model('String::push')
def _(e, c, a, raw):
    cur = S(e, a[0]); e.set_ref(a[0], Str(cur.chars + (a[1],))); return UNIT
@model('String::pop')
def _(e, c, a, raw):
    cur = S(e, a[0])
    if not cur.chars: return NONE()
    e.set_ref(a[0], Str(cur.chars[:-1])); return SOME(cur.chars[-1])
@model('String::clear')
def _(e, c, a, raw): e.set_ref(a[0], Str(())); return UNIT
@model('String::truncate')
def _(e, c, a, raw):
    cur = S(e, a[0]); n = a[1]
    if isinstance(n, int) and isinstance(byte_len(cur), int) and n >= byte_len(cur): return UNIT
    if is_sym(n) or not cur.is_concrete():
        if e.branch(n >= byte_len(cur)): return UNIT
    i = char_at_boundary(e, cur, n, 'truncate'); e.set_ref(a[0], Str(cur.chars[:i])); return UNIT
@model('String::insert_str')
def _(e, c, a, raw):
    cur = S(e, a[0]); i = char_at_boundary(e, cur, a[1], 'insert_str')
    e.set_ref(a[0], Str(cur.chars[:i] + S(e, a[2]).chars + cur.chars[i:])); return UNIT
@model('String::insert')
def _(e, c, a, raw):
    cur = S(e, a[0]); i = char_at_boundary(e, cur, a[1], 'insert')
    e.set_ref(a[0], Str(cur.chars[:i] + (a[2],) + cur.chars[i:])); return UNIT
@model('String::remove')
def _(e, c, a, raw):
    cur = S(e, a[0]); i = char_at_boundary(e, cur, a[1], 'remove')
    if i >= len(cur.chars): raise Panic('cannot remove a char from the end of a string')
    e.set_ref(a[0], Str(cur.chars[:i] + cur.chars[i+1:])); return cur.chars[i]
@model('String::drain', 'String::replace_range')
def _(e, c, a, raw): raise Unsupported(c)
@model('re:^<(std::string::)?String as (Add|AddAssign)<&str>>::(add|add_assign)$')
def _(e, c, a, raw):
    if c.endswith('add_assign'):
        cur = S(e, a[0]); e.set_ref(a[0], Str(cur.chars + S(e, a[1]).chars)); return UNIT
    return Str(S(e, a[0]).chars + S(e, a[1]).chars)
@model('re:^<(std::string::)?String as Extend<.*>>::extend$')
def _(e, c, a, raw):
    from .models_iter import getiter, drain
    cur = list(S(e, a[0]).chars)
    for it in drain(e, getiter(e, a[1])):
        v = e.deref(it)
        if isinstance(v, Str): cur.extend(v.chars)
        else: cur.append(v)
    e.set_ref(a[0], Str(cur)); return UNIT
@model('re:^<(std::string::)?String as FromIterator<.*>>::from_iter$')
def _(e, c, a, raw):
    from .models_iter import getiter, drain
    cur = []
    for it in drain(e, getiter(e, a[0])):
        v = e.deref(it)
        if isinstance(v, Str): cur.extend(v.chars)
        elif isinstance(v, EnumV) and v.ty == 'Cow': cur.extend(S(e, v).chars)
        else: cur.append(v)
    return Str(cur)
@model('core::str::<impl str>::repeat', 'alloc::str::<impl str>::repeat')
def _(e, c, a, raw):
    n = e.concretize_small(a[1], 0, 16)
    return Str(S(e, a[0]).chars * n)
@model('core::str::<impl str>::replace', 'alloc::str::<impl str>::replace')
def _(e, c, a, raw):
    st = S(e, a[0]); pat = Pattern(e, a[1]); to = S(e, a[2]).chars
    out = []; i = 0
    if pat.empty(): raise Unsupported('replace of empty pattern')
    while True:
        r = find_from(e, st.chars, pat, i)
        if r is None: break
        out.extend(st.chars[i:r[0]]); out.extend(to); i = r[0] + r[1]
    out.extend(st.chars[i:])
    return Str(out)
@model('core::str::<impl str>::replacen', 'alloc::str::<impl str>::replacen')
def _(e, c, a, raw):
    st = S(e, a[0]); pat = Pattern(e, a[1]); to = S(e, a[2]).chars; cnt = a[3]
    out = []; i = 0; k = 0
    while k < cnt:
        r = find_from(e, st.chars, pat, i)
        if r is None: break
        out.extend(st.chars[i:r[0]]); out.extend(to); i = r[0] + r[1]; k += 1
    out.extend(st.chars[i:])
    return Str(out)

def _case(e, ch, f, lo, hi, delta):
    """case mapping of one char -> list of chars; a symbolic non-ASCII char is concretised to its model value"""
    if not isinstance(ch, int):
        if e.branch(ch < 0x80): return [z3.If(z3.And(ch >= lo, ch <= hi), ch + delta, ch)]
        v = e.get_model().eval(ch, model_completion=True).as_long(); e.assume(ch == v); ch = v
    return [ord(x) for x in f(chr(ch))]
def lower(e, ch): return _case(e, ch, str.lower, 65, 90, 32)
def upper(e, ch): return _case(e, ch, str.upper, 97, 122, -32)
def ascii_lower(ch):
    if isinstance(ch, int): return ch + 32 if 65 <= ch <= 90 else ch
    return z3.If(z3.And(ch >= 65, ch <= 90), ch + 32, ch)
def ascii_upper(ch):
    if isinstance(ch, int): return ch - 32 if 97 <= ch <= 122 else ch
    return z3.If(z3.And(ch >= 97, ch <= 122), ch - 32, ch)
@model('core::str::<impl str>::to_lowercase', 'alloc::str::<impl str>::to_lowercase')
def _(e, c, a, raw): return Str(sum((lower(e, ch) for ch in S(e, a[0]).chars), []))
@model('core::str::<impl str>::to_uppercase', 'alloc::str::<impl str>::to_uppercase')
def _(e, c, a, raw): return Str(sum((upper(e, ch) for ch in S(e, a[0]).chars), []))
@model('core::str::<impl str>::to_ascii_lowercase', 'alloc::str::<impl str>::to_ascii_lowercase')
def _(e, c, a, raw): return Str([ascii_lower(ch) for ch in S(e, a[0]).chars])
@model('core::str::<impl str>::to_ascii_uppercase', 'alloc::str::<impl str>::to_ascii_uppercase')
def _(e, c, a, raw): return Str([ascii_upper(ch) for ch in S(e, a[0]).chars])
@model('core::str::<impl str>::eq_ignore_ascii_case')
def _(e, c, a, raw):
    x = S(e, a[0]); y = S(e, a[1])
    if len(x.chars) != len(y.chars): return False
    return b_and(*[s_eq(ascii_lower(p), ascii_lower(q)) for p, q in zip(x.chars, y.chars)])
@model('core::str::<impl str>::is_ascii')
def _(e, c, a, raw): return b_and(*[(ch < 128) for ch in S(e, a[0]).chars])

def str_cmp(e, x, y):
    """lexicographic comparison by code point (== byte order for UTF-8) -> 'Less'|'Equal'|'Greater' (forks)"""
    for p, q in zip(x.chars, y.chars):
        if p is q: continue
        if e.branch(s_eq(p, q)): continue
        return 'Less' if e.branch(p < q) else 'Greater'
    if len(x.chars) == len(y.chars): return 'Equal'
    return 'Less' if len(x.chars) < len(y.chars) else 'Greater'
@model('re:^<(str|String|&str|&String) as (Ord|PartialOrd.*)>::(cmp|partial_cmp)$', 're:^core::str::traits::<impl (Ord|PartialOrd) for str>::(cmp|partial_cmp)$',
       're:^core::cmp::impls::<impl (Ord|PartialOrd<&(str|String)>) for &(str|String)>::(cmp|partial_cmp)$')
def _(e, c, a, raw):
    r = EnumV('Ordering', str_cmp(e, S(e, a[0]), S(e, a[1])))
    return SOME(r) if c.endswith('partial_cmp') else r
@model('re:^<(str|String|&str|&String) as PartialOrd.*>::(lt|le|gt|ge)$', 're:^core::cmp::impls::<impl PartialOrd<&(str|String)> for &(str|String)>::(lt|le|gt|ge)$')
def _(e, c, a, raw):
    r = str_cmp(e, S(e, a[0]), S(e, a[1])); op = c.rsplit('::', 1)[1]
    return {'lt': r == 'Less', 'le': r != 'Greater', 'gt': r == 'Greater', 'ge': r != 'Less'}[op]

# ---- parse ---------------------------------------------------------------------------------
def parse_uint(e, st, lo, hi, signed=False):
    """<uN as FromStr>: optional '+', decimal digits; returns OK(int term) or ERR"""
    chars = list(st.chars)
    if not chars: return ERR(Agg('ParseIntError', [mkstr('empty')]))
    neg = False
    if len(chars) >= 1:
        if e.branch(s_eq(chars[0], 43)): chars = chars[1:]
        elif signed and e.branch(s_eq(chars[0], 45)): chars = chars[1:]; neg = True
    if not chars: return ERR(Agg('ParseIntError', [mkstr('invalid digit')]))
    val = 0
    for ch in chars:
        isd = (48 <= ch <= 57) if isinstance(ch, int) else z3.And(ch >= 48, ch <= 57)
        if not e.branch(isd): return ERR(Agg('ParseIntError', [mkstr('invalid digit')]))
        val = val * 10 + (ch - 48)
    if neg: val = -val
    inr = (lo <= val <= hi) if isinstance(val, int) else z3.And(val >= lo, val <= hi)
    if not e.branch(inr): return ERR(Agg('ParseIntError', [mkstr('overflow')]))
    return OK(val)

@model('core::str::<impl str>::parse')
def _(e, c, a, raw):
    ty = turbofish(raw)[0]
    return e.call_path(e._call_crate, '<%s as FromStr>::from_str' % ty, [a[0]])
@model('re:^<(u8|u16|u32|u64|usize|u128|i8|i16|i32|i64|isize|i128) as FromStr>::from_str$',
       're:^core::num::<impl FromStr for (\\w+)>::from_str$', 're:^core::num::<impl (\\w+)>::from_str$')
def _(e, c, a, raw):
    from .engine import INT_RANGE
    m = re.search(r'\b(u8|u16|u32|u64|usize|u128|i8|i16|i32|i64|isize|i128)\b', c)
    ty = m.group(1); lo, hi = INT_RANGE[ty]
    return parse_uint(e, S(e, a[0]), lo, hi, signed=ty.startswith('i'))
@model('re:^<bool as FromStr>::from_str$', 're:^core::str::traits::<impl FromStr for bool>::from_str$')
def _(e, c, a, raw):
    st = S(e, a[0])
    if e.branch(veq(e, st, mkstr('true'))): return OK(True)
    if e.branch(veq(e, st, mkstr('false'))): return OK(False)
    return ERR(Agg('ParseBoolError', []))
@model('re:^<(std::string::)?String as FromStr>::from_str$')
def _(e, c, a, raw): return OK(S(e, a[0]))
@model('re:^<char as FromStr>::from_str$')
def _(e, c, a, raw):
    st = S(e, a[0])
    return OK(st.chars[0]) if len(st.chars) == 1 else ERR(Agg('ParseCharError', []))

# ---- char --------------------------------------------------------------------------------------
def rng(c, lo, hi):
    if isinstance(c, int): return lo <= c <= hi
    return z3.And(c >= lo, c <= hi)
def C(e, v): return e.deref(v)
@model('re:^(core::)?char::methods::<impl char>::is_ascii_graphic$')
def _(e, c, a, raw): return rng(C(e, a[0]), 0x21, 0x7e)
@model('re:^(core::)?char::methods::<impl char>::is_ascii_digit$')
def _(e, c, a, raw): return rng(C(e, a[0]), 48, 57)
@model('re:^(core::)?char::methods::<impl char>::is_ascii_alphabetic$')
def _(e, c, a, raw):
    ch = C(e, a[0]); return b_or(rng(ch, 65, 90), rng(ch, 97, 122))
@model('re:^(core::)?char::methods::<impl char>::is_ascii_alphanumeric$')
def _(e, c, a, raw):
    ch = C(e, a[0]); return b_or(rng(ch, 65, 90), rng(ch, 97, 122), rng(ch, 48, 57))
@model('re:^(core::)?char::methods::<impl char>::is_ascii_lowercase$')
def _(e, c, a, raw): return rng(C(e, a[0]), 97, 122)
@model('re:^(core::)?char::methods::<impl char>::is_ascii_uppercase$')
def _(e, c, a, raw): return rng(C(e, a[0]), 65, 90)
@model('re:^(core::)?char::methods::<impl char>::is_ascii_punctuation$')
def _(e, c, a, raw):
    ch = C(e, a[0]); return b_or(rng(ch, 33, 47), rng(ch, 58, 64), rng(ch, 91, 96), rng(ch, 123, 126))
@model('re:^(core::)?char::methods::<impl char>::is_ascii_whitespace$')
def _(e, c, a, raw): return is_ascii_ws(C(e, a[0]))
@model('re:^(core::)?char::methods::<impl char>::is_ascii_control$')
def _(e, c, a, raw):
    ch = C(e, a[0]); return b_or(rng(ch, 0, 31), s_eq(ch, 127))
@model('re:^(core::)?char::methods::<impl char>::is_ascii_hexdigit$')
def _(e, c, a, raw):
    ch = C(e, a[0]); return b_or(rng(ch, 48, 57), rng(ch, 65, 70), rng(ch, 97, 102))
@model('re:^(core::)?char::methods::<impl char>::is_ascii$')
def _(e, c, a, raw): return rng(C(e, a[0]), 0, 127)
@model('re:^(core::)?char::methods::<impl char>::is_whitespace$')
def _(e, c, a, raw): return is_ws(e, C(e, a[0]))
@model('re:^(core::)?char::methods::<impl char>::is_control$')
def _(e, c, a, raw):
    ch = C(e, a[0]); return b_or(rng(ch, 0, 31), rng(ch, 127, 159))
@model('re:^(core::)?char::methods::<impl char>::(is_alphanumeric|is_alphabetic|is_numeric|is_lowercase|is_uppercase)$')
def _(e, c, a, raw):
    ch = C(e, a[0]); f = c.rsplit('::', 1)[1]
    pyf = {'is_alphanumeric': str.isalnum, 'is_alphabetic': str.isalpha, 'is_numeric': str.isnumeric, 'is_lowercase': str.islower, 'is_uppercase': str.isupper}[f]
    if isinstance(ch, int): return pyf(chr(ch))
    if e.check(ch >= 0x80): raise Unsupported(f + ' of symbolic non-ASCII char')
    if f == 'is_alphanumeric': return b_or(rng(ch, 65, 90), rng(ch, 97, 122), rng(ch, 48, 57))
    if f == 'is_alphabetic': return b_or(rng(ch, 65, 90), rng(ch, 97, 122))
    if f == 'is_numeric': return rng(ch, 48, 57)
    if f == 'is_lowercase': return rng(ch, 97, 122)
    return rng(ch, 65, 90)
@model('re:^(core::)?char::methods::<impl char>::len_utf8$')
def _(e, c, a, raw): return utf8w(C(e, a[0]))
@model('re:^(core::)?char::methods::<impl char>::to_ascii_lowercase$')
def _(e, c, a, raw): return ascii_lower(C(e, a[0]))
@model('re:^(core::)?char::methods::<impl char>::to_ascii_uppercase$')
def _(e, c, a, raw): return ascii_upper(C(e, a[0]))
@model('re:^(core::)?char::methods::<impl char>::eq_ignore_ascii_case$')
def _(e, c, a, raw): return s_eq(ascii_lower(C(e, a[0])), ascii_lower(C(e, a[1])))
@model('re:^(core::)?char::methods::<impl char>::to_digit$')
def _(e, c, a, raw):
    ch = C(e, a[0]); radix = a[1]
    if radix != 10: raise Unsupported('to_digit radix')
    if e.branch(rng(ch, 48, 57)): return SOME(ch - 48)
    return NONE()
@model('re:^<char as ToString>::to_string$')
def _(e, c, a, raw): return Str((C(e, a[0]),))
@model('re:^(core::)?char::methods::<impl char>::is_digit$')
def _(e, c, a, raw):
    if a[1] != 10: raise Unsupported('is_digit radix')
    return rng(C(e, a[0]), 48, 57)
@model('re:^(core::)?char::methods::<impl u8>::is_ascii_\\w+$', 're:^core::num::<impl u8>::is_ascii_(\\w+)$')
def _(e, c, a, raw):
    ch = C(e, a[0]); f = c.rsplit('is_ascii_', 1)[1]
    return {'digit': rng(ch, 48, 57), 'alphabetic': b_or(rng(ch, 65, 90), rng(ch, 97, 122)),
            'alphanumeric': b_or(rng(ch, 65, 90), rng(ch, 97, 122), rng(ch, 48, 57)), 'whitespace': is_ascii_ws(ch),
            'graphic': rng(ch, 0x21, 0x7e), 'uppercase': rng(ch, 65, 90), 'lowercase': rng(ch, 97, 122)}[f]
@model('String::from_utf8', 'core::str::from_utf8', 'std::str::from_utf8', 'String::from_utf8_lossy', 'core::str::converts::from_utf8')
def _(e, c, a, raw):
    v = e.deref(a[0])
    bs = v.slots
    if all(isinstance(b, int) for b in bs):
        try: s = bytes(bs).decode('utf-8')
        except UnicodeDecodeError:
            if c.endswith('lossy'): return EnumV('Cow', 'Owned', [mkstr(bytes(bs).decode('utf-8', 'replace'))])
            return ERR(Agg('Utf8Error', []))
        r = mkstr(s)
    else:
        for b in bs:
            if is_sym(b) and e.check(b >= 0x80): raise Unsupported('from_utf8 of symbolic non-ASCII bytes')
        r = Str(bs)
    return EnumV('Cow', 'Borrowed', [r]) if c.endswith('lossy') else OK(r)
