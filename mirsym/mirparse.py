"""Parser for rustc's textual MIR (-Zunpretty=mir) as emitted by the pinned nightly.

Everything is parsed eagerly; `lint()` refuses a dump unless every statement parses, every
basic block ends in exactly one terminator and every successor block exists.
"""
import re, hashlib

CHAR_LIT = re.compile(r"'(\\u\{[0-9a-fA-F]+\}|\\x[0-9a-fA-F]{2}|\\.|[^\\'])'")


class MirError(Exception):
    pass


class Fn:
    __slots__ = ('name', 'crate', 'nargs', 'sig', 'argtypes', 'ret', 'blocks', 'cleanup', 'promoted', 'ltypes',
                 'raw', 'kind', 'sha', 'owner', 'argnames', 'debug')

    def __init__(self, name, kind='fn'):
        self.name = name; self.kind = kind; self.crate = None
        self.nargs = 0; self.sig = ''; self.argtypes = []; self.ret = '()'
        self.blocks = {}; self.cleanup = set(); self.promoted = {}; self.ltypes = {}
        self.raw = []; self.sha = None; self.owner = None; self.debug = {}

    def __repr__(self):
        return '<Fn %s::%s>' % (self.crate, self.name)


def skip_quoted(s, i):
    """s[i] == '"': return index just after the closing quote"""
    i += 1
    n = len(s)
    while i < n:
        ch = s[i]
        if ch == '\\': i += 2; continue
        if ch == '"': return i + 1
        i += 1
    raise MirError('unterminated string: ' + s[:80])


def split_top(s, sep=','):
    out = []; depth = 0; cur_start = 0; i = 0; n = len(s)
    while i < n:
        ch = s[i]
        if ch == '"':
            i = skip_quoted(s, i); continue
        if ch == "'":
            m = CHAR_LIT.match(s, i)
            if m: i = m.end(); continue
        if ch in '([{<':
            depth += 1
        elif ch in ')]}':
            depth -= 1
        elif ch == '>':
            if i > 0 and s[i-1] in '-=': pass
            else: depth -= 1
        elif ch == sep and depth == 0:
            out.append(s[cur_start:i].strip()); cur_start = i + 1
        i += 1
    t = s[cur_start:].strip()
    if t: out.append(t)
    return out


def match_paren(s, i):
    """s[i] is an opening ( [ or { ; return index of its partner (ignores <>, handles quotes)"""
    depth = 0; n = len(s)
    while i < n:
        ch = s[i]
        if ch == '"':
            i = skip_quoted(s, i); continue
        if ch == "'":
            m = CHAR_LIT.match(s, i)
            if m: i = m.end(); continue
        if ch in '([{': depth += 1
        elif ch in ')]}':
            depth -= 1
            if depth == 0: return i
        i += 1
    raise MirError('unbalanced: ' + s[:120])


# ---- places ---------------------------------------------------------------
def parse_place(s):
    """(local:int, (proj...)) proj: ('deref',) ('field',n,ty) ('downcast',name) ('index',local) ('constindex',n,fromend)
    ('subslice', from, to, fromend)"""
    s = s.strip()
    m = re.fullmatch(r'_(\d+)', s)
    if m: return (int(m.group(1)), ())
    if s.startswith('(*') and match_paren(s, 0) == len(s) - 1:
        l, p = parse_place(s[2:-1]); return (l, p + (('deref',),))
    if s.startswith('(') and match_paren(s, 0) == len(s) - 1:
        inner = s[1:-1]
        if inner.startswith('('):
            j = match_paren(inner, 0) + 1
        else:
            mm = re.match(r'_\d+', inner)
            if not mm: raise MirError('place? ' + s)
            j = mm.end()
        base = inner[:j]; rest = inner[j:]
        l, p = parse_place(base)
        while rest.startswith('['):
            k = rest.index(']')
            p = p + (parse_index(rest[1:k]),); rest = rest[k+1:]
        m = re.match(r'\.(\d+): (.*)$', rest, re.S)
        if m:
            return (l, p + (('field', int(m.group(1)), m.group(2)),))
        m = re.match(r' as (\w+)$', rest)
        if m:
            return (l, p + (('downcast', m.group(1)),))
        m = re.match(r' as variant#(\d+)$', rest)
        if m:
            return (l, p + (('downcast', int(m.group(1))),))
        raise MirError('place? ' + s)
    if s.endswith(']'):
        k = s.rindex('[')
        l, p = parse_place(s[:k]); return (l, p + (parse_index(s[k+1:-1]),))
    raise MirError('place? ' + s)


def parse_index(t):
    t = t.strip()
    m = re.fullmatch(r'_(\d+)', t)
    if m: return ('index', int(m.group(1)))
    m = re.fullmatch(r'(\d+) of (\d+)', t)
    if m: return ('constindex', int(m.group(1)), False)
    m = re.fullmatch(r'-(\d+) of (\d+)', t)
    if m: return ('constindex', int(m.group(1)), True)
    m = re.fullmatch(r'(\d+):(-?)(\d*)', t)
    if m: return ('subslice', int(m.group(1)), int(m.group(3) or 0), bool(m.group(2)))
    raise MirError('index? ' + t)


def is_place(s):
    return bool(re.match(r'^(_\d+|\()', s.strip()))


# ---- operands / rvalues -----------------------------------------------------
def parse_operand(s):
    s = s.strip()
    for kw in ('no_retag copy ', 'no_retag move ', 'copy ', 'move '):
        if s.startswith(kw):
            return ('place', parse_place(s[len(kw):]), kw.strip().split()[-1])
    if s.startswith('const '):
        return ('const', s[6:].strip())
    return ('fnitem', s)


BINOPS = {'Eq', 'Ne', 'Lt', 'Le', 'Gt', 'Ge', 'Add', 'Sub', 'Mul', 'Div', 'Rem', 'BitAnd', 'BitOr', 'BitXor', 'Shl', 'Shr',
          'AddWithOverflow', 'SubWithOverflow', 'MulWithOverflow', 'Offset', 'Cmp', 'AddUnchecked', 'SubUnchecked',
          'MulUnchecked', 'ShlUnchecked', 'ShrUnchecked'}


def parse_rvalue(s):
    s = s.strip()
    m = re.match(r'^(\w+)\((.*)\)$', s, re.S)
    if m and m.group(1) in BINOPS:
        a = split_top(m.group(2))
        return ('binop', m.group(1), parse_operand(a[0]), parse_operand(a[1]))
    if m and m.group(1) in ('Not', 'Neg', 'PtrMetadata'):
        return ('unop', m.group(1), parse_operand(m.group(2)))
    if s.startswith('discriminant(') and s.endswith(')'):
        return ('discr', parse_place(s[13:-1]))
    if s.startswith('&raw const ') or s.startswith('&raw mut '):
        return ('ref', parse_place(s.split(' ', 2)[2]), 'raw')
    if s.startswith('&mut '):
        return ('ref', parse_place(s[5:]), 'mut')
    if s.startswith('&fake shallow '):
        return ('ref', parse_place(s[len('&fake shallow '):]), 'fake')
    if s.startswith('&'):
        t = s[1:].strip()
        if t.startswith("'"):
            t = t.split(' ', 1)[1]
        return ('ref', parse_place(t), 'shared')
    if s.startswith('Len('):
        return ('len', parse_place(s[4:-1]))
    if s.startswith('CopyForDeref('):
        return ('use', ('place', parse_place(s[13:-1]), 'copy'))
    if s.startswith('ShallowInitBox('):
        a = split_top(s[15:-1])
        return ('shallowbox', parse_operand(a[0]), a[1])
    if s.startswith(('copy ', 'move ', 'const ', 'no_retag ')) or is_place(s):
        m = re.match(r'^(.*) as (.*) \(([A-Za-z]+(?:\(.*\))?)\)$', s, re.S)
        if m and s.startswith(('copy ', 'move ', 'const ', 'no_retag ')):
            return ('cast', parse_operand(m.group(1)), m.group(2), m.group(3))
    if s.startswith(('copy ', 'move ', 'const ', 'no_retag copy ', 'no_retag move ')):
        return ('use', parse_operand(s))
    if s.startswith('(') and match_paren(s, 0) == len(s) - 1:
        return ('tuple', [parse_operand(x) for x in split_top(s[1:-1])])
    if s.startswith('['):
        inner = s[1:-1]
        parts = split_top(inner, ';')
        if len(parts) == 2:
            return ('repeat', parse_operand(parts[0]), parts[1])
        return ('array', [parse_operand(x) for x in split_top(inner)])
    m = re.match(r'^(.*?) \{ (.*) \}$', s, re.S)
    if m and not s.startswith('const'):
        fields = []
        for f in split_top(m.group(2)):
            k, v = f.split(': ', 1)
            fields.append((k.strip(), parse_operand(v)))
        return ('struct', m.group(1), fields)
    if s.endswith(')') and '(' in s:
        # find the '(' matching the final ')', scanning forward
        stack = []; last_open = None; i = 0; n = len(s)
        while i < n:
            ch = s[i]
            if ch == '"': i = skip_quoted(s, i); continue
            if ch == "'":
                mm = CHAR_LIT.match(s, i)
                if mm: i = mm.end(); continue
            if ch in '([{': stack.append(i)
            elif ch in ')]}':
                o = stack.pop()
                if not stack and i == n - 1: last_open = o
            i += 1
        if last_open is None: raise MirError('rvalue? ' + s)
        return ('variant', s[:last_open], [parse_operand(x) for x in split_top(s[last_open+1:-1])])
    return ('variant', s, [])


# ---- statements / terminators -------------------------------------------------
def parse_targets(t):
    m = re.search(r'(?:return|success): bb(\d+)', t)
    return int(m.group(1)) if m else None


NOPS = ('StorageLive', 'StorageDead', 'nop', 'FakeRead', 'PlaceMention', 'AscribeUserType', 'Retag', 'Coverage',
        'ConstEvalCounter', 'BackwardIncompatibleDropHint', 'assume(')
TERMS = {'return', 'unreachable', 'resume', 'goto', 'switch', 'drop', 'assert', 'call', 'terminate'}


def parse_stmt(s):
    s = s.strip()
    if s.endswith(';'): s = s[:-1]
    if s == 'return': return ('return',)
    if s == 'unreachable': return ('unreachable',)
    if s.startswith('resume'): return ('resume',)
    if s.startswith('unwind terminate') or s == 'terminate' or s.startswith('terminate('): return ('terminate',)
    m = re.match(r'^goto -> bb(\d+)$', s)
    if m: return ('goto', int(m.group(1)))
    m = re.match(r'^falseEdge -> \[real: bb(\d+), imaginary: bb\d+\]$', s)
    if m: return ('goto', int(m.group(1)))
    m = re.match(r'^falseUnwind -> \[real: bb(\d+),.*\]$', s)
    if m: return ('goto', int(m.group(1)))
    if s.startswith('switchInt('):
        j = match_paren(s, 9)
        op = parse_operand(s[10:j])
        tg = s[j+1:].strip()
        if not tg.startswith('-> ['): raise MirError('switch? ' + s)
        tg = tg[3:].strip()
        arms = []; other = None
        for a in split_top(tg[1:-1]):
            k, v = a.split(': ')
            if k == 'otherwise': other = int(v[2:])
            else: arms.append((int(k), int(v[2:])))
        return ('switch', op, arms, other)
    if s.startswith('drop('):
        j = match_paren(s, 4)
        return ('drop', parse_place(s[5:j]), parse_targets(s[j+1:]))
    if s.startswith('assert('):
        j = match_paren(s, 6)
        args = split_top(s[7:j])
        c = args[0]; neg = False
        if c.startswith('!'): neg = True; c = c[1:]
        return ('assert', neg, parse_operand(c), ', '.join(args[1:]), parse_targets(s[j+1:]))
    if s.startswith(NOPS):
        return ('nop',)
    if s.startswith('Deinit(') or s.startswith('deinit('):
        return ('nop',)
    if s.startswith('discriminant('):
        # SetDiscriminant: discriminant(PLACE) = N
        j = match_paren(s, 12)
        return ('setdiscr', parse_place(s[13:j]), int(s[j+1:].strip()[1:].strip()))
    # assignment or call: find top-level ' = '
    depth = 0; idx = None; i = 0; n = len(s)
    while i < n:
        ch = s[i]
        if ch == '"': i = skip_quoted(s, i); continue
        if ch in '([{': depth += 1
        elif ch in ')]}': depth -= 1
        elif depth == 0 and s.startswith(' = ', i): idx = i; break
        i += 1
    if idx is None:
        raise MirError('stmt? ' + s)
    lhs = s[:idx]; rhs = s[idx+3:]
    dest = parse_place(lhs)
    m = re.search(r' -> (\[return: bb\d+, unwind[^\]]*\]|unwind [a-z()]+|unwind: bb\d+|bb\d+|\[return: bb\d+[^\]]*\])$', rhs)
    if m and rhs[:m.start()].endswith(')'):
        call = rhs[:m.start()]
        stack = []; last_open = None; i = 0; n = len(call)
        while i < n:
            ch = call[i]
            if ch == '"': i = skip_quoted(call, i); continue
            if ch == "'":
                mm = CHAR_LIT.match(call, i)
                if mm: i = mm.end(); continue
            if ch in '([{': stack.append(i)
            elif ch in ')]}':
                o = stack.pop()
                if not stack and i == n - 1: last_open = o
            i += 1
        if last_open is None: raise MirError('call? ' + s)
        callee = call[:last_open]
        args = [parse_operand(a) for a in split_top(call[last_open+1:-1])]
        tg = m.group(1)
        ret = parse_targets(tg)
        if ret is None and re.fullmatch(r'bb\d+', tg): ret = None   # diverging call: unwind target only
        cal = parse_operand(callee) if callee.startswith(('move ', 'copy ')) else callee
        return ('call', dest, cal, args, ret)
    return ('assign', dest, parse_rvalue(rhs))


def fn_header(s):
    """s: 'NAME(ARGS) -> RET' ; returns (name, [(argname,argtype)], ret)"""
    k = 0; j = None; n = len(s)
    while k < n:
        if s.startswith('<impl at ', k):
            k = s.index('>', k) + 1; continue
        if s[k] == '(':
            j = k; break
        k += 1
    if j is None: raise MirError('fn header? ' + s)
    name = s[:j]
    e = match_paren(s, j)
    args = split_top(s[j+1:e])
    at = []
    for a in args:
        nm, ty = a.split(': ', 1); at.append((nm.strip(), ty.strip()))
    rest = s[e+1:].strip()
    ret = rest[3:].strip() if rest.startswith('->') else '()'
    return name, at, ret


def parse_mir(text, crate):
    """returns list of Fn in dump order"""
    out = []
    cur = None; bb = None; last_fn = None
    lines = text.split('\n')
    i = 0; nl = len(lines)
    while i < nl:
        line = lines[i]
        if cur is None:
            if line.startswith('fn ') and line.endswith('{'):
                s = line[3:-1].rstrip()
                name, at, ret = fn_header(s)
                f = Fn(name); f.crate = crate; f.sig = s
                f.nargs = len(at); f.argtypes = [t for _, t in at]; f.ret = ret
                for k, (_, t) in enumerate(at): f.ltypes[k + 1] = t
                out.append(f); cur = f; last_fn = f
            elif line.startswith('const ') and line.endswith('= {'):
                m = re.match(r'^const (.*?): (.*) = \{$', line)
                # name may contain ': ' only inside <impl at a:b:c: d:e>; find the split robustly
                body = line[6:-4]
                k = 0; depth = 0; cut = None
                while k < len(body):
                    if body.startswith('<impl at ', k):
                        k = body.index('>', k) + 1; continue
                    if body.startswith('{closure@', k) or body.startswith('{constant@', k) or body.startswith('{impl', k):
                        k = body.index('}', k) + 1; continue
                    if body.startswith(': ', k): cut = k; break
                    k += 1
                if cut is None: raise MirError('const header? ' + line)
                name = body[:cut]; ty = body[cut+2:]
                f = Fn(name, 'const'); f.crate = crate; f.ret = ty; f.sig = line
                mm = re.search(r'::promoted\[(\d+)\]$', name)
                if mm and last_fn is not None:
                    last_fn.promoted[int(mm.group(1))] = f; f.owner = last_fn
                else:
                    last_fn = f
                out.append(f); cur = f
            elif line.startswith('const ') and line.endswith(';') and ' = const ' in line:
                body = line[6:-1]
                lhs, val = body.split(' = const ', 1)
                k = 0; cut = None
                while k < len(lhs):
                    if lhs.startswith('<impl at ', k):
                        k = lhs.index('>', k) + 1; continue
                    if lhs.startswith(': ', k): cut = k; break
                    k += 1
                name = lhs[:cut]; ty = lhs[cut+2:]
                f = Fn(name, 'const'); f.crate = crate; f.ret = ty; f.sig = line
                f.blocks = {0: ['_0 = const ' + val + ';', 'return;']}
                f.sha = hashlib.sha256(line.encode()).hexdigest()[:16]; f.raw = None
                out.append(f); last_fn = f
            elif line.startswith('static ') and line.endswith('= {'):
                m = re.match(r'^static (?:mut )?(.*?): (.*) = \{$', line)
                f = Fn(m.group(1), 'static'); f.crate = crate; f.ret = m.group(2); f.sig = line
                out.append(f); cur = f; last_fn = f
            elif line.strip() and not line.startswith('//') and not line.startswith('alloc') and not line.startswith(' ') and not line.startswith('}'):
                # unknown top-level item
                if not re.match(r'^(WARNING|warning)', line):
                    raise MirError('top-level? ' + line[:100])
        else:
            cur.raw.append(line)
            if line == '}':
                cur.sha = hashlib.sha256('\n'.join(cur.raw).encode()).hexdigest()[:16]
                cur.raw = None
                cur = None; bb = None
            else:
                m = re.match(r'^    bb(\d+)( \(cleanup\))?: \{$', line)
                if m:
                    bb = []; cur.blocks[int(m.group(1))] = bb
                    if m.group(2): cur.cleanup.add(int(m.group(1)))
                elif line == '    }':
                    bb = None
                elif bb is not None and line.startswith('        '):
                    st = line.strip()
                    # a statement may span lines only inside string constants (escaped) - not expected
                    bb.append(st)
                elif bb is None:
                    m = re.match(r'^\s+let (?:mut )?_(\d+): (.*);$', line)
                    if m: cur.ltypes[int(m.group(1))] = m.group(2)
                    else:
                        m = re.match(r'^\s+debug (\w+) => (.*);$', line)
                        if m: cur.debug[m.group(1)] = m.group(2)
        i += 1
    if cur is not None: raise MirError('unterminated function ' + cur.name)
    return out


def compile_fn(f):
    """parse all statements of f in place; returns number of statements"""
    n = 0
    for b, sts in f.blocks.items():
        if sts and isinstance(sts[0], tuple): n += len(sts); continue
        parsed = []
        for s in sts:
            try:
                parsed.append(parse_stmt(s))
            except MirError:
                raise
            except Exception as ex:
                raise MirError('cannot parse statement in %s bb%d: %s (%s)' % (f.name, b, s[:200], ex))
        f.blocks[b] = parsed; n += len(parsed)
    return n


def lint(fns):
    total = 0
    for f in fns:
        total += compile_fn(f)
        for b, sts in f.blocks.items():
            if not sts: raise MirError('empty block bb%d in %s' % (b, f.name))
            for k, st in enumerate(sts):
                term = st[0] in TERMS
                if term != (k == len(sts) - 1):
                    raise MirError('terminator position bb%d in %s: %r' % (b, f.name, st))
            t = sts[-1]
            succ = []
            if t[0] == 'goto': succ = [t[1]]
            elif t[0] == 'switch': succ = [x for _, x in t[2]] + ([t[3]] if t[3] is not None else [])
            elif t[0] == 'drop': succ = [t[2]]
            elif t[0] == 'assert': succ = [t[4]]
            elif t[0] == 'call': succ = [t[4]] if t[4] is not None else []
            for x in succ:
                if x is None or x not in f.blocks:
                    raise MirError('missing successor bb%s in %s' % (x, f.name))
    return total
