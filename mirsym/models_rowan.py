"""Model of rowan 0.16.1: GreenNodeBuilder, green trees, mutable / immutable cursor trees.

Written against rowan-0.16.1/src/{cursor,api,green/*}.rs.  Points that matter and are reproduced:
  * children()/children_with_tokens() iterators are lazy: the first element is computed at the first
    next(), each successor is computed from the *last yielded* element when next() is called again
    (so detaching the yielded element ends the iteration);
  * splice_children() deletes by running that iterator with enumerate() and detaching - hence only the
    first element of a multi-element range is actually removed in 0.16.1;
  * detach/attach/splice assert mutability; attach requires a mutable root;
  * handles are identities; green() is a snapshot value.
"""
import re
import z3
from .engine import model, turbofish, last_seg
from .values import *
from .models_core import deref, veq, clone_val
from .models_iter import Iter, ListIter, getiter, drain, into_iter, range_bounds
from .models_str import S

ROWAN_VERSION = '0.16.1'


class Builder:
    def __init__(s): s.parents = []; s.children = []
    def clone_value(s, e): return s


class GTok:
    __slots__ = ('kind', 'text')
    def __init__(s, kind, text): s.kind = kind; s.text = text
    def clone_value(s, e): return s


class GNode:
    __slots__ = ('kind', 'children')
    def __init__(s, kind, children): s.kind = kind; s.children = tuple(children)
    def clone_value(s, e): return s
    def text_chars(s):
        out = []
        for c in s.children:
            if isinstance(c, GTok): out.extend(c.text.chars)
            else: out.extend(c.text_chars())
        return out


class SNode:
    """syntax element (node or token) of a mutable or immutable tree"""
    def __init__(s, green, parent, mutable):
        s.kind = green.kind; s.parent = parent; s.mutable = mutable
        s.is_token = isinstance(green, GTok)
        if s.is_token: s.text = green.text; s.children = None
        else: s.children = [SNode(g, s, mutable) for g in green.children]
    def clone_value(s, e): return s
    def index(s):
        if s.parent is None: return 0
        for i, c in enumerate(s.parent.children):
            if c is s: return i
        raise Unsupported('rowan model: node not among its parent\'s children')
    def green(s):
        if s.is_token: return GTok(s.kind, s.text)
        return GNode(s.kind, [c.green() for c in s.children])
    def text_chars(s):
        if s.is_token: return list(s.text.chars)
        out = []
        for c in s.children: out.extend(c.text_chars())
        return out
    def detach(s):
        if not s.mutable: raise Panic('rowan: detach on immutable tree (assert self.mutable)')
        if s.parent is None: return
        p = s.parent
        for i, c in enumerate(p.children):
            if c is s: del p.children[i]; break
        s.parent = None
    def eq_value(s, e, o):
        raise Unsupported('identity comparison of syntax nodes')
    def display(s, e, debug=False):
        if debug: return list(mkstr('<SyntaxNode>').chars)
        return s.text_chars()
    def root(s):
        n = s
        while n.parent is not None: n = n.parent
        return n


class SText:
    def __init__(s, chars): s.chars = list(chars)
    def display(s, e, debug=False): return list(s.chars)
    def clone_value(s, e): return s


def elem(n):
    return EnumV('NodeOrToken', 'Token' if n.is_token else 'Node', [n])


def N(e, v):
    v = e.deref(v)
    if isinstance(v, EnumV) and v.ty == 'NodeOrToken': v = e.deref(v.slots[0])
    if isinstance(v, SNode): return v
    if isinstance(v, Agg) and len(v.slots) >= 1 and isinstance(e.deref(v.slots[0]), SNode): return e.deref(v.slots[0])
    raise Unsupported('expected a syntax node, got %s' % type(v).__name__)


def lang_of(raw):
    m = re.search(r'<((?:[\w]+::)*Lang)>', raw)
    return m.group(1) if m else 'Lang'


def kind_of(e, n, raw):
    """L::kind_from_raw(raw kind)"""
    k = n.kind
    return e.call_path(e._call_crate, '<%s as rowan::Language>::kind_from_raw' % lang_of(raw), [k])


# ---- builder ------------------------------------------------------------------------------
@model('GreenNodeBuilder::new', 'rowan::GreenNodeBuilder::new', 're:^<GreenNodeBuilder<.*> as Default>::default$')
def _(e, c, a, raw): return Builder()
@model('GreenNodeBuilder::start_node', 'rowan::GreenNodeBuilder::start_node')
def _(e, c, a, raw):
    b = e.deref(a[0]); b.parents.append((a[1], len(b.children))); return UNIT
@model('GreenNodeBuilder::token', 'rowan::GreenNodeBuilder::token')
def _(e, c, a, raw):
    b = e.deref(a[0]); b.children.append(GTok(a[1], S(e, a[2]))); return UNIT
@model('GreenNodeBuilder::finish_node', 'rowan::GreenNodeBuilder::finish_node')
def _(e, c, a, raw):
    b = e.deref(a[0])
    if not b.parents: raise Panic('GreenNodeBuilder::finish_node without start_node (unwrap on None)')
    kind, first = b.parents.pop()
    node = GNode(kind, b.children[first:]); del b.children[first:]; b.children.append(node); return UNIT
@model('GreenNodeBuilder::finish', 'rowan::GreenNodeBuilder::finish')
def _(e, c, a, raw):
    b = e.deref(a[0])
    if len(b.children) != 1: raise Panic('GreenNodeBuilder::finish: assert_eq!(children.len(), 1) failed')
    g = b.children[0]
    if isinstance(g, GTok): raise Panic('GreenNodeBuilder::finish: root is a token')
    return g
@model('GreenNodeBuilder::checkpoint', 'GreenNodeBuilder::start_node_at')
def _(e, c, a, raw): raise Unsupported(c)

# ---- green values ----------------------------------------------------------------------------
def G(e, v):
    v = e.deref(v)
    if isinstance(v, EnumV) and v.ty in ('Cow', 'NodeOrToken'): v = e.deref(v.slots[0])
    if isinstance(v, (GNode, GTok)): return v
    raise Unsupported('expected a green element, got %s' % type(v).__name__)
@model('re:^<(rowan::)?GreenNode as Clone>::clone$', 're:^<Cow<.*GreenNodeData> as Deref>::deref$', 're:^<(rowan::)?GreenNode as Deref>::deref$',
       're:^<(rowan::)?GreenNodeData as ToOwned>::to_owned$', 're:^<Cow<.*GreenNodeData>>::into_owned$', 'Cow::<\'_, GreenNodeData>::into_owned',
       're:^<(rowan::)?GreenToken as Clone>::clone$', 're:^<(rowan::)?GreenToken as Deref>::deref$', 're:^<(rowan::)?GreenNode as Borrow<.*>>::borrow$')
def _(e, c, a, raw): return G(e, a[0])
@model('re:^<.*Green(Node|Token).* as Into<NodeOrToken<(rowan::)?GreenNode, (rowan::)?GreenToken>>>::into$',
       're:^<NodeOrToken<(rowan::)?GreenNode, (rowan::)?GreenToken> as From<.*>>::from$')
def _(e, c, a, raw):
    g = G(e, a[0]); return EnumV('NodeOrToken', 'Token' if isinstance(g, GTok) else 'Node', [g])
@model('GreenToken::new', 'rowan::GreenToken::new')
def _(e, c, a, raw): return GTok(a[0], S(e, a[1]))
@model('GreenNode::new', 'rowan::GreenNode::new')
def _(e, c, a, raw):
    items = [G(e, x) for x in drain(e, into_iter(e, a[1]))]
    return GNode(a[0], items)
@model('GreenNodeData::kind', 'GreenTokenData::kind', 'rowan::GreenNodeData::kind', 'rowan::GreenTokenData::kind')
def _(e, c, a, raw): return G(e, a[0]).kind
@model('GreenTokenData::text', 'rowan::GreenTokenData::text')
def _(e, c, a, raw): return G(e, a[0]).text
@model('GreenNodeData::children', 'rowan::GreenNodeData::children')
def _(e, c, a, raw):
    g = G(e, a[0]); return ListIter([EnumV('NodeOrToken', 'Token' if isinstance(x, GTok) else 'Node', [x]) for x in g.children])
@model('GreenNodeData::splice_children', 'rowan::GreenNodeData::splice_children')
def _(e, c, a, raw):
    g = G(e, a[0]); lo, hi = range_bounds(e, a[1], len(g.children))
    items = [G(e, x) for x in drain(e, into_iter(e, a[2]))]
    ch = list(g.children); ch[lo:hi] = items
    return GNode(g.kind, ch)
@model('GreenNodeData::insert_child', 'rowan::GreenNodeData::insert_child')
def _(e, c, a, raw):
    g = G(e, a[0]); i = e.concretize_small(a[1], 0, len(g.children) + 1)
    if i > len(g.children): raise Panic('green insert_child out of range')
    ch = list(g.children); ch.insert(i, G(e, a[2])); return GNode(g.kind, ch)
@model('GreenNodeData::remove_child', 'rowan::GreenNodeData::remove_child')
def _(e, c, a, raw):
    g = G(e, a[0]); i = e.concretize_small(a[1], 0, len(g.children) + 1)
    if i >= len(g.children): raise Panic('green remove_child out of range')
    ch = list(g.children); del ch[i]; return GNode(g.kind, ch)
@model('GreenNodeData::replace_child', 'rowan::GreenNodeData::replace_child')
def _(e, c, a, raw):
    g = G(e, a[0]); i = e.concretize_small(a[1], 0, len(g.children) + 1)
    ch = list(g.children)
    if i < len(ch): ch[i] = G(e, a[2])
    return GNode(g.kind, ch)

# ---- syntax trees ------------------------------------------------------------------------------
@model('rowan::SyntaxNode::new_root_mut')
def _(e, c, a, raw): return SNode(G(e, a[0]), None, True)
@model('rowan::SyntaxNode::new_root')
def _(e, c, a, raw): return SNode(G(e, a[0]), None, False)
@model('rowan::SyntaxNode::clone_for_update')
def _(e, c, a, raw):
    n = N(e, a[0])
    if n.mutable: raise Panic('clone_for_update on a mutable tree')
    # rebuild the whole tree mutable and return the corresponding node
    path = []; x = n
    while x.parent is not None: path.append(x.index()); x = x.parent
    r = SNode(x.green(), None, True)
    for i in reversed(path): r = r.children[i]
    return r
@model('rowan::SyntaxNode::clone_subtree')
def _(e, c, a, raw): return SNode(N(e, a[0]).green(), None, False)
@model('rowan::SyntaxNode::is_mutable')
def _(e, c, a, raw): return N(e, a[0]).mutable
@model('rowan::SyntaxNode::kind', 'rowan::SyntaxToken::kind', 're:^(rowan::)?api::<impl NodeOrToken<.*>>::kind$',
       're:^NodeOrToken::<rowan::SyntaxNode<.*>, rowan::SyntaxToken<.*>>::kind$')
def _(e, c, a, raw): return kind_of(e, N(e, a[0]), raw)
@model('re:^<rowan::Syntax(Node|Token)<.*> as Clone>::clone$', 're:^<NodeOrToken<rowan::SyntaxNode<.*>, rowan::SyntaxToken<.*>> as Clone>::clone$',
       're:^<rowan::Syntax(Node|Token)<.*> as From<rowan::cursor::Syntax(Node|Token)>>::from$')
def _(e, c, a, raw): return clone_val(e, e.deref(a[0]))
@model('re:^<rowan::Syntax(Node|Token)<.*> as Into<NodeOrToken<.*>>>::into$', 're:^<NodeOrToken<rowan::SyntaxNode<.*>, rowan::SyntaxToken<.*>> as From<rowan::Syntax(Node|Token)<.*>>>::from$')
def _(e, c, a, raw): return elem(N(e, a[0]))
@model('re:^NodeOrToken::<.*>::(into_token|as_token)$', 'NodeOrToken::into_token', 'NodeOrToken::as_token')
def _(e, c, a, raw):
    v = e.deref(a[0])
    if v.variant != 'Token': return NONE()
    return SOME(v.slots[0]) if c.endswith('into_token') else SOME(Ref(v.slots, [0]))
@model('re:^NodeOrToken::<.*>::(into_node|as_node)$', 'NodeOrToken::into_node', 'NodeOrToken::as_node')
def _(e, c, a, raw):
    v = e.deref(a[0])
    if v.variant != 'Node': return NONE()
    return SOME(v.slots[0]) if c.endswith('into_node') else SOME(Ref(v.slots, [0]))
@model('re:^NodeOrToken::<.*>::as_ref$', 'NodeOrToken::as_ref')
def _(e, c, a, raw):
    v = e.deref(a[0]); return EnumV('NodeOrToken', v.variant, [Ref(v.slots, [0])])


class ChildIter(Iter):
    """rowan 0.16.1 SyntaxNodeChildren / SyntaxElementChildren"""
    def __init__(s, parent, nodes_only):
        s.parent = parent; s.nodes_only = nodes_only; s.cur = None; s.init = False
    def clone_value(s, e):
        n = ChildIter(s.parent, s.nodes_only); n.cur = s.cur; n.init = s.init; return n
    def _first(s):
        for c in s.parent.children:
            if not s.nodes_only or not c.is_token: return c
        return None
    def _succ(s, n):
        if n.parent is None: return None
        sib = n.parent.children; i = n.index()
        for c in sib[i+1:]:
            if not s.nodes_only or not c.is_token: return c
        return None
    def next(s, e):
        if not s.init:
            s.cur = s._first(); s.init = True
        else:
            s.cur = s._succ(s.cur) if s.cur is not None else None
        if s.cur is None: return NONE()
        return SOME(s.cur if s.nodes_only else elem(s.cur))

@model('rowan::SyntaxNode::children')
def _(e, c, a, raw): return ChildIter(N(e, a[0]), True)
@model('rowan::SyntaxNode::children_with_tokens')
def _(e, c, a, raw): return ChildIter(N(e, a[0]), False)
@model('rowan::SyntaxToken::text')
def _(e, c, a, raw): return N(e, a[0]).text
@model('rowan::SyntaxNode::text')
def _(e, c, a, raw): return SText(N(e, a[0]).text_chars())
@model('SyntaxText::to_string', 're:^<(rowan::)?SyntaxText as ToString>::to_string$')
def _(e, c, a, raw): return Str(e.deref(a[0]).chars)
@model('SyntaxText::is_empty', 'rowan::SyntaxText::is_empty')
def _(e, c, a, raw): return len(e.deref(a[0]).chars) == 0
@model('SyntaxText::len', 'rowan::SyntaxText::len')
def _(e, c, a, raw): return ssum([utf8w(x) for x in e.deref(a[0]).chars])
@model('SyntaxText::contains_char', 'rowan::SyntaxText::contains_char')
def _(e, c, a, raw):
    for ch in e.deref(a[0]).chars:
        if e.branch(s_eq(ch, a[1])): return True
    return False
@model('re:^<(rowan::)?SyntaxText as PartialEq<&?str>>::eq$')
def _(e, c, a, raw): return veq(e, Str(e.deref(a[0]).chars), a[1])
@model('rowan::SyntaxNode::index', 'rowan::SyntaxToken::index', 're:^(rowan::)?api::<impl NodeOrToken<.*>>::index$')
def _(e, c, a, raw): return N(e, a[0]).index()
@model('rowan::SyntaxNode::parent', 'rowan::SyntaxToken::parent', 're:^(rowan::)?api::<impl NodeOrToken<.*>>::parent$')
def _(e, c, a, raw):
    p = N(e, a[0]).parent; return NONE() if p is None else SOME(p)
@model('rowan::SyntaxNode::ancestors')
def _(e, c, a, raw):
    out = []; n = N(e, a[0])
    while n is not None: out.append(n); n = n.parent
    return ListIter(out)
@model('rowan::SyntaxToken::parent_ancestors', 'rowan::SyntaxToken::ancestors')
def _(e, c, a, raw):
    out = []; n = N(e, a[0]).parent
    while n is not None: out.append(n); n = n.parent
    return ListIter(out)
@model('rowan::SyntaxNode::detach', 'rowan::SyntaxToken::detach', 're:^(rowan::)?api::<impl NodeOrToken<.*>>::detach$')
def _(e, c, a, raw): N(e, a[0]).detach(); return UNIT
@model('rowan::SyntaxNode::first_child')
def _(e, c, a, raw):
    for x in N(e, a[0]).children:
        if not x.is_token: return SOME(x)
    return NONE()
@model('rowan::SyntaxNode::last_child')
def _(e, c, a, raw):
    for x in reversed(N(e, a[0]).children):
        if not x.is_token: return SOME(x)
    return NONE()
@model('rowan::SyntaxNode::first_child_or_token')
def _(e, c, a, raw):
    ch = N(e, a[0]).children; return SOME(elem(ch[0])) if ch else NONE()
@model('rowan::SyntaxNode::last_child_or_token')
def _(e, c, a, raw):
    ch = N(e, a[0]).children; return SOME(elem(ch[-1])) if ch else NONE()
def leaf(n, first):
    while not n.is_token:
        if not n.children: return None
        n = n.children[0 if first else -1]
    return n
@model('rowan::SyntaxNode::first_token', 'rowan::SyntaxNode::last_token')
def _(e, c, a, raw):
    # rowan: first_child_or_token()?.first_token() - does not skip empty nodes
    t = leaf(N(e, a[0]), c.endswith('first_token'))
    return NONE() if t is None or t is N(e, a[0]) else SOME(t)

def sib_or_token(n, forward):
    if n.parent is None: return NONE()
    sib = n.parent.children; i = n.index()
    j = i + 1 if forward else i - 1
    if j < 0 or j >= len(sib): return NONE()
    return SOME(elem(sib[j]))
def sib_node(n, forward):
    if n.parent is None: return None
    sib = n.parent.children; i = n.index()
    rng = sib[i+1:] if forward else reversed(sib[:i])
    for x in rng:
        if not x.is_token: return x
    return None
@model('rowan::SyntaxNode::next_sibling_or_token', 'rowan::SyntaxToken::next_sibling_or_token')
def _(e, c, a, raw): return sib_or_token(N(e, a[0]), True)
@model('rowan::SyntaxNode::prev_sibling_or_token', 'rowan::SyntaxToken::prev_sibling_or_token')
def _(e, c, a, raw): return sib_or_token(N(e, a[0]), False)
@model('re:^(rowan::)?api::<impl NodeOrToken<.*>>::(next|prev)_sibling_or_token$')
def _(e, c, a, raw): return sib_or_token(N(e, a[0]), 'next_' in c)
@model('rowan::SyntaxNode::next_sibling', 'rowan::SyntaxNode::prev_sibling')
def _(e, c, a, raw):
    r = sib_node(N(e, a[0]), 'next_' in c); return NONE() if r is None else SOME(r)
def is_next(d):
    return getattr(d, 'variant', None) == 'Next'
@model('rowan::SyntaxNode::siblings')
def _(e, c, a, raw):
    n = N(e, a[0]); forward = is_next(e.deref(a[1]))
    class Sib(Iter):
        def __init__(s): s.cur = n; s.first = True
        def next(s, e):
            # iter::successors: the successor is computed from the previously yielded node when next() is called
            if s.first: s.first = False
            elif s.cur is not None: s.cur = sib_node(s.cur, forward)
            return NONE() if s.cur is None else SOME(s.cur)
    return Sib()
@model('rowan::SyntaxNode::siblings_with_tokens', 'rowan::SyntaxToken::siblings_with_tokens')
def _(e, c, a, raw):
    n = N(e, a[0]); forward = is_next(e.deref(a[1]))
    class Sib(Iter):
        def __init__(s): s.cur = n; s.first = True
        def next(s, e):
            if s.first: s.first = False
            elif s.cur is not None:
                r = sib_or_token(s.cur, forward)
                s.cur = None if r.variant == 'None' else r.slots[0].slots[0]
            return NONE() if s.cur is None else SOME(elem(s.cur))
    return Sib()
def preorder(n, with_tokens):
    out = []
    def rec(x):
        if x.is_token:
            if with_tokens: out.append(x)
            return
        out.append(x)
        for c in x.children: rec(c)
    rec(n); return out
@model('rowan::SyntaxNode::descendants')
def _(e, c, a, raw): return ListIter(preorder(N(e, a[0]), False))
@model('rowan::SyntaxNode::descendants_with_tokens')
def _(e, c, a, raw): return ListIter([elem(x) for x in preorder(N(e, a[0]), True)])
@model('rowan::SyntaxNode::green')
def _(e, c, a, raw):
    n = N(e, a[0]); return EnumV('Cow', 'Owned' if n.mutable else 'Borrowed', [n.green()])
@model('rowan::SyntaxToken::green')
def _(e, c, a, raw): return N(e, a[0]).green()
@model('rowan::SyntaxNode::splice_children')
def _(e, c, a, raw):
    n = N(e, a[0]); rng = e.deref(a[1]); lo, hi = rng.slots[0], rng.slots[1]
    lo = e.concretize_small(lo, 0, 64); hi = e.concretize_small(hi, 0, 64)
    # typed api: to_insert is collected first
    items = [N(e, x) for x in drain(e, into_iter(e, a[2]))]
    if not n.mutable: raise Panic('rowan: splice_children on immutable tree')
    it = ChildIter(n, False); i = 0
    while True:
        v = it.next(e)
        if v.variant == 'None': break
        if lo <= i < hi: it.cur.detach()
        i += 1
    index = lo
    for x in items:
        if not x.mutable: raise Panic('rowan: attach_child: detach of an immutable child (assert self.mutable)')
        x.detach()
        if x.parent is not None: raise Panic('rowan: attach_child: child has a parent')
        if index > len(n.children): raise Panic('rowan: attach_child index out of range (Vec::splice)')
        # attaching a node into its own subtree is not representable
        x.parent = n; n.children.insert(index, x)
        index += 1
    return UNIT
@model('rowan::SyntaxNode::replace_with', 'rowan::SyntaxToken::replace_with')
def _(e, c, a, raw):
    n = N(e, a[0]); repl = G(e, a[1])
    # assert_eq!(self.kind(), replacement.kind())
    if not e.branch(veq(e, n.kind, repl.kind)): raise Panic('rowan: replace_with kind mismatch')
    if n.is_token and n.parent is None: raise Panic('rowan: SyntaxToken::replace_with without parent (unwrap)')
    cur = repl; x = n
    while x.parent is not None:
        p = x.parent; i = x.index()
        ch = [c_.green() for c_ in p.children]; ch[i] = cur
        cur = GNode(p.kind, ch); x = p
    return cur
@model('re:^<rowan::Syntax(Node|Token)<.*> as ToString>::to_string$', 're:^<NodeOrToken<rowan::SyntaxNode<.*>, rowan::SyntaxToken<.*>> as ToString>::to_string$')
def _(e, c, a, raw): return Str(N(e, a[0]).text_chars())
@model('re:^<rowan::Syntax(Node|Token)<.*> as (std::fmt::|core::fmt::)?Display>::fmt$', 're:^<(rowan::)?SyntaxText as (std::fmt::|core::fmt::)?Display>::fmt$',
       're:^<NodeOrToken<rowan::SyntaxNode<.*>, rowan::SyntaxToken<.*>> as (std::fmt::|core::fmt::)?Display>::fmt$')
def _(e, c, a, raw):
    v = e.deref(a[0])
    chars = v.chars if isinstance(v, SText) else N(e, a[0]).text_chars()
    e.deref(a[1]).buf.extend(chars); return OK(UNIT)
@model('re:^<rowan::Syntax(Node|Token)<.*> as (PartialEq|Hash|Eq)>::.*$')
def _(e, c, a, raw): raise Unsupported('identity comparison / hashing of syntax nodes')
@model('rowan::SyntaxNode::text_range', 'rowan::SyntaxToken::text_range')
def _(e, c, a, raw): raise Unsupported('text_range')
