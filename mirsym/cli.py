import sys, os, shutil, argparse


def main():
    sys.path.insert(0, os.path.dirname(os.path.dirname(os.path.abspath(__file__))))
    if len(sys.argv) < 2:
        print('usage: check setup|selftest|clean|Cxx [--tier quick|thorough] [--replay path]'); return 2
    cmd = sys.argv[1]
    from . import mirdump, replay
    if cmd == 'clean':
        shutil.rmtree(mirdump.WORK, ignore_errors=True); return 0
    if cmd == 'setup':
        os.makedirs(mirdump.WORK, exist_ok=True)
        mirdump.dump_all()
        replay.build()
        if '--no-selftest' in sys.argv: return 0
        from . import selftest
        return selftest.main()
    if cmd == 'selftest':
        from . import selftest
        return selftest.main()
    ap = argparse.ArgumentParser()
    ap.add_argument('prop'); ap.add_argument('--tier', default=os.environ.get('VERIF_TIER', 'quick')); ap.add_argument('--replay')
    ap.add_argument('--jobs', type=int); ap.add_argument('--wall', type=float)
    a = ap.parse_args()
    mod = 'props.' + a.prop.lower()
    from . import runner
    seed = int(os.environ.get('VERIF_SEED', '0') or 0)
    if a.replay: return runner.run_replay(mod, a.replay)
    return runner.run_check(mod, a.tier, seed, jobs=a.jobs, wall_budget=a.wall)


if __name__ == '__main__':
    sys.exit(main())
