"""Models: Vec / slices / iterators / maps."""
import re
import z3
from .engine import model, turbofish, last_seg, strip_generics
from .mirparse import split_top
from .values import *
from .models_core import deref, veq, clone_val, default_for


class Iter:
    def size_known(self): return None
    def next_back(self, e): raise Unsupported('next_back on ' + type(self).__name__)


class ListIter(Iter):
    def __init__(s, items): s.items = list(items); s.pos = 0; s.end = len(s.items)
    def next(s, e):
        if s.pos >= s.end: return NONE()
        v = s.items[s.pos]; s.pos += 1; return SOME(v)
    def next_back(s, e):
        if s.pos >= s.end: return NONE()
        s.end -= 1; return SOME(s.items[s.end])
    def remaining(s): return s.items[s.pos:s.end]
    def clone_value(s, e):
        n = ListIter(s.items); n.pos = s.pos; n.end = s.end; return n


class FromFn(Iter):
    def __init__(s, f): s.f = f
    def next(s, e): return e.call_value(Ref([s.f], [0]) if False else s.f, [])


class MapIter(Iter):
    def __init__(s, it, f): s.it = it; s.f = f
    def next(s, e):
        v = s.it.next(e)
        if v.variant == 'None': return v
        return SOME(e.call_value(s.f, [v.slots[0]]))
    def next_back(s, e):
        v = s.it.next_back(e)
        if v.variant == 'None': return v
        return SOME(e.call_value(s.f, [v.slots[0]]))


class Peekable(Iter):
    def __init__(s, it): s.it = it; s.peeked = None
    def next(s, e):
        if s.peeked is not None:
            v = s.peeked; s.peeked = None; return v
        return s.it.next(e)
    def peek(s, e):
        if s.peeked is None: s.peeked = s.it.next(e)
        return s.peeked


class GenIter(Iter):
    """iterator from a python generator function taking (e)"""
    def __init__(s, gen): s.gen = gen; s.e = None; s.g = None
    def next(s, e):
        if s.g is None: s.g = s.gen(e)
        try: return SOME(next(s.g))
        except StopIteration: return NONE()


class UserIter(Iter):
    """an iterator implemented in the repository (struct + impl Iterator)"""
    def __init__(s, ref, ty, crate): s.ref = ref; s.ty = ty; s.crate = crate
    def next(s, e): return e.call_path(s.crate, '<%s as Iterator>::next' % s.ty, [s.ref])


def getiter(e, v):
    d = e.deref(v)
    if isinstance(d, Iter): return d
    if isinstance(d, (Agg,)) and isinstance(v, Ref):
        r = e.deref1(v)
        return UserIter(r, d.ty, getattr(e, '_call_crate', None))
    if isinstance(d, Agg):
        return UserIter(Ref([d], [0]), d.ty, getattr(e, '_call_crate', None))
    if isinstance(d, BoxV): return getiter(e, Ref(d.slots, [0]))
    raise Unsupported('not an iterator: ' + type(d).__name__)


def drain(e, it):
    while True:
        v = it.next(e)
        if v.variant == 'None': return
        yield v.slots[0]


def into_iter(e, v):
    d = e.deref(v)
    if isinstance(d, Iter): return d
    if isinstance(d, VecV) or (isinstance(d, Agg) and d.ty in ('array', 'slice')):
        if isinstance(v, Ref): return ListIter([Ref(d.slots, [i]) for i in range(len(d.slots))])
        return ListIter(d.slots)
    if isinstance(d, EnumV) and d.ty == 'Option':
        if isinstance(v, Ref): return ListIter([Ref(d.slots, [0])] if d.variant == 'Some' else [])
        return ListIter(d.slots if d.variant == 'Some' else [])
    if isinstance(d, MapV):
        if isinstance(v, Ref): return ListIter([Agg('tuple', [Ref(p, [0]), Ref(p, [1])]) for p in d.items])
        return ListIter([Agg('tuple', [p[0], p[1]]) for p in d.items])
    if isinstance(d, SetV):
        if isinstance(v, Ref): return ListIter([Ref(d.items, [i]) for i in range(len(d.items))])
        return ListIter(list(d.items))
    if isinstance(d, Agg):
        return getiter(e, v)
    raise Unsupported('into_iter ' + repr(type(d).__name__))


class MapV:
    """insertion-ordered association list standing for HashMap/BTreeMap (iteration order is NOT modelled faithfully)"""
    def __init__(s): s.items = []
    def find(s, e, k):
        for p in s.items:
            if e.branch(veq(e, p[0], k)): return p
        return None
    def clone_value(s, e):
        n = MapV(); n.items = [[clone_val(e, p[0]), clone_val(e, p[1])] for p in s.items]; return n
    def eq_value(s, e, o):
        if not isinstance(o, MapV) or len(s.items) != len(o.items): return False
        conds = []
        for k, v in s.items:
            p = o.find(e, k)
            if p is None: return False
            conds.append(veq(e, v, p[1]))
        return b_and(*conds)


class SetV:
    def __init__(s): s.items = []
    def has(s, e, k):
        for p in s.items:
            if e.branch(veq(e, p, k)): return True
        return False
    def clone_value(s, e):
        n = SetV(); n.items = [clone_val(e, p) for p in s.items]; return n
    def eq_value(s, e, o):
        if not isinstance(o, SetV) or len(s.items) != len(o.items): return False
        return b_and(*[b_or(*[veq(e, x, y) for y in o.items]) for x in s.items])


def collect_into(e, ty, it, crate, raw=''):
    base = last_seg(ty)
    if base == 'Vec' or base == 'VecDeque': return VecV(list(drain(e, it)))
    if base == 'String':
        cur = []
        for x in drain(e, it):
            v = e.deref(x)
            if isinstance(v, Str): cur.extend(v.chars)
            elif isinstance(v, EnumV) and v.ty == 'Cow': cur.extend(e.deref(v.slots[0]).chars)
            else: cur.append(v)
        return Str(cur)
    if base in ('HashMap', 'BTreeMap'):
        m = MapV()
        for x in drain(e, it):
            k, v = x.slots
            p = m.find(e, k)
            if p is None: m.items.append([k, v])
            else: p[1] = v
        return m
    if base in ('HashSet', 'BTreeSet'):
        s = SetV()
        for x in drain(e, it):
            if not s.has(e, x): s.items.append(x)
        return s
    if base == 'Result':
        inner = split_top(ty[ty.index('<')+1:-1])[0]
        out = []
        for x in drain(e, it):
            if x.variant == 'Err': return ERR(x.slots[0])
            out.append(x.slots[0])
        return OK(collect_into(e, inner, ListIter(out), crate))
    if base == 'Option':
        inner = split_top(ty[ty.index('<')+1:-1])[0]
        out = []
        for x in drain(e, it):
            if x.variant == 'None': return NONE()
            out.append(x.slots[0])
        return SOME(collect_into(e, inner, ListIter(out), crate))
    if base == 'Box':
        return collect_into(e, 'Vec', it, crate)
    # user type: FromIterator impl in the repository; the item type is read off the source iterator's type
    item = '_'
    m = re.search(r'IntoIter<(\(.*?\)|[^<>,]+)>', raw) or re.search(r"Iter<'_, (\(.*?\)|[^<>,]+)>", raw)
    if m: item = m.group(1)
    return e.call_path(crate, '<%s as FromIterator<%s>>::from_iter' % (ty, item), [it])


# ---- Iterator adaptors ----------------------------------------------------------------------
@model('re:^<.* as Iterator>::next$')
def _(e, c, a, raw): return getiter(e, a[0]).next(e)
@model('re:^<.* as DoubleEndedIterator>::next_back$')
def _(e, c, a, raw): return getiter(e, a[0]).next_back(e)
@model('std::iter::from_fn', 'core::iter::from_fn')
def _(e, c, a, raw): return FromFn(a[0])
@model('std::iter::once', 'core::iter::once')
def _(e, c, a, raw): return ListIter([a[0]])
@model('std::iter::empty', 'core::iter::empty')
def _(e, c, a, raw): return ListIter([])
@model('std::iter::repeat', 'core::iter::repeat')
def _(e, c, a, raw):
    v = a[0]
    def g(e):
        while True: yield clone_val(e, v)
    return GenIter(g)
@model('std::iter::repeat_n', 'core::iter::repeat_n')
def _(e, c, a, raw): return ListIter([clone_val(e, a[0]) for _ in range(e.concretize_small(a[1], 0, 64))])
@model('std::iter::zip', 'core::iter::zip')
def _(e, c, a, raw): return zip_iter(e, into_iter(e, a[0]), into_iter(e, a[1]))
@model('re:^<.* as Iterator>::map$')
def _(e, c, a, raw): return MapIter(getiter(e, a[0]), a[1])
@model('re:^<.* as Iterator>::peekable$')
def _(e, c, a, raw): return Peekable(getiter(e, a[0]))
@model('re:^<.* as Iterator>::by_ref$')
def _(e, c, a, raw): return a[0]
@model('re:^<.* as Iterator>::fuse$')
def _(e, c, a, raw): return a[0]
@model('Peekable::peek', 'Peekable::peek_mut')
def _(e, c, a, raw):
    p = getiter(e, a[0]); v = p.peek(e)
    if v.variant == 'None': return NONE()
    return SOME(Ref(v.slots, [0]))
@model('Peekable::next_if')
def _(e, c, a, raw):
    p = getiter(e, a[0]); v = p.peek(e)
    if v.variant == 'None': return NONE()
    if e.branch(e.call_value(a[1], [Ref(v.slots, [0])])): return p.next(e)
    return NONE()
@model('Peekable::next_if_eq')
def _(e, c, a, raw):
    p = getiter(e, a[0]); v = p.peek(e)
    if v.variant == 'None': return NONE()
    if e.branch(veq(e, v.slots[0], a[1])): return p.next(e)
    return NONE()
@model('re:^<.* as IntoIterator>::into_iter$')
def _(e, c, a, raw): return into_iter(e, a[0])
@model('re:^<.* as Iterator>::collect$')
def _(e, c, a, raw):
    ty = turbofish(raw)[0]
    return collect_into(e, ty, getiter(e, a[0]), e._call_crate, raw)
@model('re:^<.* as FromIterator<.*>>::from_iter$')
def _(e, c, a, raw):
    m = re.match(r'^<(.*) as FromIterator<', raw, re.S)
    ty = m.group(1)
    if last_seg(ty) in ('Vec', 'String', 'HashMap', 'HashSet', 'BTreeMap', 'BTreeSet', 'Result', 'Option', 'VecDeque'):
        return collect_into(e, ty, into_iter(e, a[0]), e._call_crate)
    raise Unsupported('from_iter for ' + ty)
@model('re:^<.* as Iterator>::enumerate$')
def _(e, c, a, raw):
    it = getiter(e, a[0])
    class En(Iter):
        def __init__(s): s.i = 0
        def next(s, e):
            v = it.next(e)
            if v.variant == 'None': return v
            r = SOME(Agg('tuple', [s.i, v.slots[0]])); s.i += 1; return r
    return En()
def zip_iter(e, x, y):
    class Z(Iter):
        def next(s, e):
            p = x.next(e)
            if p.variant == 'None': return p
            q = y.next(e)
            if q.variant == 'None': return q
            return SOME(Agg('tuple', [p.slots[0], q.slots[0]]))
    return Z()
@model('re:^<.* as Iterator>::zip$')
def _(e, c, a, raw): return zip_iter(e, getiter(e, a[0]), into_iter(e, a[1]))
@model('re:^<.* as Iterator>::chain$')
def _(e, c, a, raw):
    x = getiter(e, a[0]); y = into_iter(e, a[1])
    class Ch(Iter):
        def __init__(s): s.first = True
        def next(s, e):
            if s.first:
                v = x.next(e)
                if v.variant == 'Some': return v
                s.first = False
            return y.next(e)
    return Ch()
@model('re:^<.* as Iterator>::filter_map$')
def _(e, c, a, raw):
    it = getiter(e, a[0]); f = a[1]
    class FM(Iter):
        def next(s, e):
            while True:
                v = it.next(e)
                if v.variant == 'None': return v
                r = e.call_value(f, [v.slots[0]])
                if r.variant == 'Some': return r
    return FM()
@model('re:^<.* as Iterator>::flat_map$')
def _(e, c, a, raw):
    it = getiter(e, a[0]); f = a[1]
    class FlM(Iter):
        def __init__(s): s.cur = None
        def next(s, e):
            while True:
                if s.cur is not None:
                    v = s.cur.next(e)
                    if v.variant == 'Some': return v
                    s.cur = None
                o = it.next(e)
                if o.variant == 'None': return o
                s.cur = into_iter(e, e.call_value(f, [o.slots[0]]))
    return FlM()
@model('re:^<.* as Iterator>::flatten$')
def _(e, c, a, raw):
    it = getiter(e, a[0])
    class Fl(Iter):
        def __init__(s): s.cur = None
        def next(s, e):
            while True:
                if s.cur is not None:
                    v = s.cur.next(e)
                    if v.variant == 'Some': return v
                    s.cur = None
                o = it.next(e)
                if o.variant == 'None': return o
                s.cur = into_iter(e, o.slots[0])
    return Fl()
@model('re:^<.* as Iterator>::filter$')
def _(e, c, a, raw):
    it = getiter(e, a[0]); f = a[1]
    class F(Iter):
        def next(s, e):
            while True:
                v = it.next(e)
                if v.variant == 'None': return v
                if e.branch(e.call_value(f, [Ref(v.slots, [0])])): return v
        def next_back(s, e):
            while True:
                v = it.next_back(e)
                if v.variant == 'None': return v
                if e.branch(e.call_value(f, [Ref(v.slots, [0])])): return v
    return F()
@model('re:^<.* as Iterator>::take_while$')
def _(e, c, a, raw):
    it = getiter(e, a[0]); f = a[1]
    class TW(Iter):
        def __init__(s): s.done = False
        def next(s, e):
            if s.done: return NONE()
            v = it.next(e)
            if v.variant == 'None': return v
            if e.branch(e.call_value(f, [Ref(v.slots, [0])])): return v
            s.done = True; return NONE()
    return TW()
@model('re:^<.* as Iterator>::skip_while$')
def _(e, c, a, raw):
    it = getiter(e, a[0]); f = a[1]
    class SW(Iter):
        def __init__(s): s.started = False
        def next(s, e):
            while True:
                v = it.next(e)
                if v.variant == 'None' or s.started: return v
                if not e.branch(e.call_value(f, [Ref(v.slots, [0])])):
                    s.started = True; return v
    return SW()
@model('re:^<.* as Iterator>::map_while$')
def _(e, c, a, raw):
    it = getiter(e, a[0]); f = a[1]
    class MW(Iter):
        def __init__(s): s.done = False
        def next(s, e):
            if s.done: return NONE()
            v = it.next(e)
            if v.variant == 'None': return v
            r = e.call_value(f, [v.slots[0]])
            if r.variant == 'None': s.done = True
            return r
    return MW()
@model('re:^<.* as Iterator>::skip$')
def _(e, c, a, raw):
    it = getiter(e, a[0]); n = e.concretize_small(a[1], 0, 64)
    class Sk(Iter):
        def __init__(s): s.done = False
        def next(s, e):
            if not s.done:
                s.done = True
                for _i in range(n):
                    if it.next(e).variant == 'None': return NONE()
            return it.next(e)
    return Sk()
@model('re:^<.* as Iterator>::take$')
def _(e, c, a, raw):
    it = getiter(e, a[0]); n = e.concretize_small(a[1], 0, 64)
    class Tk(Iter):
        def __init__(s): s.k = 0
        def next(s, e):
            if s.k >= n: return NONE()
            s.k += 1; return it.next(e)
    return Tk()
@model('re:^<.* as Iterator>::step_by$')
def _(e, c, a, raw):
    it = getiter(e, a[0]); n = a[1]
    class SB(Iter):
        def __init__(s): s.first = True
        def next(s, e):
            if s.first: s.first = False; return it.next(e)
            for _ in range(n - 1):
                if it.next(e).variant == 'None': return NONE()
            return it.next(e)
    return SB()
@model('re:^<.* as Iterator>::rev$')
def _(e, c, a, raw):
    it = getiter(e, a[0])
    class Rv(Iter):
        def next(s, e): return it.next_back(e)
        def next_back(s, e): return it.next(e)
    return Rv()
@model('re:^<.* as Iterator>::cloned$', 're:^<.* as Iterator>::copied$')
def _(e, c, a, raw):
    it = getiter(e, a[0])
    class Cl(Iter):
        def next(s, e):
            v = it.next(e)
            return v if v.variant == 'None' else SOME(clone_val(e, v.slots[0]))
        def next_back(s, e):
            v = it.next_back(e)
            return v if v.variant == 'None' else SOME(clone_val(e, v.slots[0]))
    return Cl()
@model('re:^<.* as Iterator>::inspect$')
def _(e, c, a, raw):
    it = getiter(e, a[0]); f = a[1]
    class In(Iter):
        def next(s, e):
            v = it.next(e)
            if v.variant == 'Some': e.call_value(f, [Ref(v.slots, [0])])
            return v
    return In()
@model('re:^<.* as Iterator>::find$')
def _(e, c, a, raw):
    it = getiter(e, a[0]); f = a[1]
    while True:
        v = it.next(e)
        if v.variant == 'None': return v
        if e.branch(e.call_value(f, [Ref(v.slots, [0])])): return v
@model('re:^<.* as DoubleEndedIterator>::rfind$')
def _(e, c, a, raw):
    it = getiter(e, a[0]); f = a[1]
    while True:
        v = it.next_back(e)
        if v.variant == 'None': return v
        if e.branch(e.call_value(f, [Ref(v.slots, [0])])): return v
@model('re:^<.* as Iterator>::find_map$')
def _(e, c, a, raw):
    it = getiter(e, a[0]); f = a[1]
    while True:
        v = it.next(e)
        if v.variant == 'None': return v
        r = e.call_value(f, [v.slots[0]])
        if r.variant == 'Some': return r
@model('re:^<.* as Iterator>::position$')
def _(e, c, a, raw):
    it = getiter(e, a[0]); f = a[1]; i = 0
    while True:
        v = it.next(e)
        if v.variant == 'None': return v
        if e.branch(e.call_value(f, [v.slots[0]])): return SOME(i)
        i += 1
@model('re:^<.* as Iterator>::count$')
def _(e, c, a, raw):
    it = getiter(e, a[0]); n = 0
    while it.next(e).variant == 'Some': n += 1
    return n
@model('re:^<.* as Iterator>::last$')
def _(e, c, a, raw):
    it = getiter(e, a[0]); last = NONE()
    while True:
        v = it.next(e)
        if v.variant == 'None': return last
        last = v
@model('re:^<.* as Iterator>::nth$')
def _(e, c, a, raw):
    it = getiter(e, a[0]); n = e.concretize_small(a[1], 0, 64)
    for _i in range(n):
        if it.next(e).variant == 'None': return NONE()
    return it.next(e)
@model('re:^<.* as Iterator>::any$')
def _(e, c, a, raw):
    it = getiter(e, a[0]); f = a[1]
    while True:
        v = it.next(e)
        if v.variant == 'None': return False
        if e.branch(e.call_value(f, [v.slots[0]])): return True
@model('re:^<.* as Iterator>::all$')
def _(e, c, a, raw):
    it = getiter(e, a[0]); f = a[1]
    while True:
        v = it.next(e)
        if v.variant == 'None': return True
        if not e.branch(e.call_value(f, [v.slots[0]])): return False
@model('re:^<.* as Iterator>::for_each$')
def _(e, c, a, raw):
    for x in drain(e, getiter(e, a[0])): e.call_value(a[1], [x])
    return UNIT
@model('re:^<.* as Iterator>::fold$')
def _(e, c, a, raw):
    acc = a[1]
    for x in drain(e, getiter(e, a[0])): acc = e.call_value(a[2], [acc, x])
    return acc
@model('re:^<.* as Iterator>::try_fold$', 're:^<.* as Iterator>::try_for_each$')
def _(e, c, a, raw): raise Unsupported(c)
@model('re:^<.* as Iterator>::sum$')
def _(e, c, a, raw):
    tot = 0
    for x in drain(e, getiter(e, a[0])): tot = tot + e.deref(x)
    return tot
@model('re:^<.* as Iterator>::max$', 're:^<.* as Iterator>::min$')
def _(e, c, a, raw):
    best = None; mx = c.endswith('max')
    for x in drain(e, getiter(e, a[0])):
        if best is None: best = x; continue
        xv = e.deref(x); bv = e.deref(best)
        if not (isinstance(xv, int) or is_sym(xv)): raise Unsupported('max/min of non-integers')
        if mx:
            if e.branch(xv >= bv): best = x
        else:
            if e.branch(xv < bv): best = x
    return NONE() if best is None else SOME(best)
@model('re:^<.* as Iterator>::max_by_key$', 're:^<.* as Iterator>::min_by_key$')
def _(e, c, a, raw):
    best = None; bk = None; mx = 'max_by_key' in c
    for x in drain(e, getiter(e, a[0])):
        k = e.call_value(a[1], [Ref([x], [0])])
        if best is None: best, bk = x, k; continue
        if mx:
            if e.branch(k >= bk): best, bk = x, k
        else:
            if e.branch(k < bk): best, bk = x, k
    return NONE() if best is None else SOME(best)
@model('re:^<.* as Iterator>::unzip$')
def _(e, c, a, raw):
    xs = []; ys = []
    for x in drain(e, getiter(e, a[0])): xs.append(x.slots[0]); ys.append(x.slots[1])
    return Agg('tuple', [VecV(xs), VecV(ys)])
@model('re:^<.* as Iterator>::partition$')
def _(e, c, a, raw):
    xs = []; ys = []
    for x in drain(e, getiter(e, a[0])):
        (xs if e.branch(e.call_value(a[1], [Ref([x], [0])])) else ys).append(x)
    return Agg('tuple', [VecV(xs), VecV(ys)])
@model('re:^<.* as Iterator>::size_hint$')
def _(e, c, a, raw): return Agg('tuple', [0, NONE()])
@model('re:^<.* as ExactSizeIterator>::len$')
def _(e, c, a, raw):
    it = getiter(e, a[0])
    if isinstance(it, ListIter): return it.end - it.pos
    raise Unsupported('ExactSizeIterator::len')
@model('re:^<.* as Iterator>::eq$')
def _(e, c, a, raw):
    x = list(drain(e, getiter(e, a[0]))); y = list(drain(e, into_iter(e, a[1])))
    if len(x) != len(y): return False
    return b_and(*[veq(e, p, q) for p, q in zip(x, y)])
@model('re:^<.* as Iterator>::cmp$', 're:^<.* as Iterator>::partial_cmp$')
def _(e, c, a, raw): raise Unsupported(c)
@model('re:^<Range<(usize|u\\d+|i\\d+|isize)> as Iterator>::next$', 're:^core::iter::range::<impl Iterator for Range<.*>>::next$',
       're:^<std::ops::Range<(usize|u\\d+|i\\d+|isize)> as Iterator>::next$')
def _(e, c, a, raw):
    r = e.deref(a[0]); lo, hi = r.slots
    if e.branch(lo < hi if (is_sym(lo) or is_sym(hi)) else lo < hi):
        r.slots[0] = lo + 1; return SOME(lo)
    return NONE()
@model('re:^<(std::ops::)?RangeInclusive<(usize|u\\d+|i\\d+|isize)> as Iterator>::next$', 're:^core::iter::range::<impl Iterator for RangeInclusive<.*>>::next$')
def _(e, c, a, raw):
    r = e.deref(a[0])
    if len(r.slots) < 3: r.slots.append(False)
    lo, hi, ex = r.slots
    if ex: return NONE()
    if e.branch(lo < hi if (is_sym(lo) or is_sym(hi)) else lo < hi):
        r.slots[0] = lo + 1; return SOME(lo)
    if e.branch(s_eq(lo, hi)):
        r.slots[2] = True; return SOME(lo)
    return NONE()
@model('RangeInclusive::new')
def _(e, c, a, raw): return Agg('RangeInclusive', [a[0], a[1], False])
@model('re:^<(std::ops::)?Range<.*> as Iterator>::(map|filter|rev|collect|enumerate|zip|filter_map|for_each|fold|any|all|find|flat_map|skip|take)$')
def _(e, c, a, raw):
    r = e.deref(a[0]); lo, hi = r.slots[0], r.slots[1]
    if is_sym(lo) or is_sym(hi): raise Unsupported('symbolic range adaptor')
    it = ListIter(list(range(lo, hi)))
    meth = c.rsplit('::', 1)[1]
    return e.call_path(e._call_crate, '<ListIter as Iterator>::' + meth + ('::<%s>' % ', '.join(turbofish(raw)) if turbofish(raw) else ''), [it] + a[1:])

# ---- Vec / slices -------------------------------------------------------------------------------
def V(e, v):
    v = e.deref(v)
    if isinstance(v, VecV): return v
    if isinstance(v, Agg) and v.ty in ('array', 'slice', 'bytes'): return v
    if isinstance(v, BoxV): return V(e, v.slots[0])
    raise Unsupported('expected a vector, got %s' % type(v).__name__)

@model('Vec::new', 'VecDeque::new')
def _(e, c, a, raw): return VecV([])
@model('Vec::with_capacity', 'VecDeque::with_capacity')
def _(e, c, a, raw): return VecV([])
@model('Vec::push', 'VecDeque::push_back')
def _(e, c, a, raw): V(e, a[0]).slots.append(a[1]); return UNIT
@model('VecDeque::push_front')
def _(e, c, a, raw): V(e, a[0]).slots.insert(0, a[1]); return UNIT
@model('Vec::pop', 'VecDeque::pop_back')
def _(e, c, a, raw):
    v = V(e, a[0])
    return SOME(v.slots.pop()) if v.slots else NONE()
@model('VecDeque::pop_front')
def _(e, c, a, raw):
    v = V(e, a[0])
    return SOME(v.slots.pop(0)) if v.slots else NONE()
@model('Vec::len', 're:^core::slice::<impl \\[.*\\]>::len$', 'VecDeque::len')
def _(e, c, a, raw): return len(V(e, a[0]).slots)
@model('Vec::is_empty', 're:^core::slice::<impl \\[.*\\]>::is_empty$', 'VecDeque::is_empty')
def _(e, c, a, raw): return len(V(e, a[0]).slots) == 0
@model('Vec::clear')
def _(e, c, a, raw): del V(e, a[0]).slots[:]; return UNIT
@model('Vec::truncate')
def _(e, c, a, raw):
    n = e.concretize_small(a[1], 0, 64); del V(e, a[0]).slots[n:]; return UNIT
@model('Vec::insert')
def _(e, c, a, raw):
    v = V(e, a[0]); i = e.concretize_small(a[1], 0, len(v.slots) + 1)
    if i > len(v.slots): raise Panic('Vec::insert index out of bounds')
    v.slots.insert(i, a[2]); return UNIT
@model('Vec::remove')
def _(e, c, a, raw):
    v = V(e, a[0]); i = e.concretize_small(a[1], 0, len(v.slots))
    if i >= len(v.slots): raise Panic('Vec::remove index out of bounds')
    return v.slots.pop(i)
@model('Vec::swap_remove')
def _(e, c, a, raw):
    v = V(e, a[0]); i = e.concretize_small(a[1], 0, len(v.slots))
    if i >= len(v.slots): raise Panic('swap_remove index out of bounds')
    x = v.slots[i]; last = v.slots.pop()
    if i < len(v.slots): v.slots[i] = last
    return x
@model('Vec::retain', 'Vec::retain_mut')
def _(e, c, a, raw):
    v = V(e, a[0]); keep = []
    for i in range(len(v.slots)):
        if e.branch(e.call_value(a[1], [Ref(v.slots, [i])])): keep.append(v.slots[i])
    v.slots[:] = keep; return UNIT
@model('Vec::extend_from_slice')
def _(e, c, a, raw):
    V(e, a[0]).slots.extend(clone_val(e, x) for x in V(e, a[1]).slots); return UNIT
@model('Vec::append')
def _(e, c, a, raw):
    o = V(e, a[1]); V(e, a[0]).slots.extend(o.slots); del o.slots[:]; return UNIT
@model('re:^<Vec<.*> as Extend<.*>>::extend$')
def _(e, c, a, raw):
    v = V(e, a[0])
    for x in drain(e, into_iter(e, a[1])): v.slots.append(x)
    return UNIT
@model('Vec::drain')
def _(e, c, a, raw):
    v = V(e, a[0]); lo, hi = range_bounds(e, a[1], len(v.slots))
    items = v.slots[lo:hi]; del v.slots[lo:hi]; return ListIter(items)
@model('Vec::split_off')
def _(e, c, a, raw):
    v = V(e, a[0]); n = e.concretize_small(a[1], 0, len(v.slots))
    r = VecV(v.slots[n:]); del v.slots[n:]; return r
@model('Vec::dedup')
def _(e, c, a, raw):
    v = V(e, a[0]); out = []
    for x in v.slots:
        if out and e.branch(veq(e, out[-1], x)): continue
        out.append(x)
    v.slots[:] = out; return UNIT
@model('Vec::as_slice', 'Vec::as_mut_slice', 're:^<Vec<.*> as Deref(Mut)?>::deref(_mut)?$', 're:^<Vec<.*> as AsRef<\\[.*\\]>>::as_ref$',
       're:^<Vec<.*> as Borrow(Mut)?<\\[.*\\]>>::borrow(_mut)?$', 're:^<\\[.*\\] as AsRef<\\[.*\\]>>::as_ref$', 'Vec::into_boxed_slice',
       're:^core::array::<impl \\[.*\\]>::as_slice$', 're:^core::slice::<impl \\[.*\\]>::into_vec$', 'Vec::leak',
       're:^<\\[.*; \\d+\\] as AsRef<\\[.*\\]>>::as_ref$')
def _(e, c, a, raw):
    if isinstance(a[0], Ref): return e.deref1(a[0])
    return a[0]
@model('re:^core::slice::<impl \\[.*\\]>::to_vec$', 're:^<Vec<.*> as Clone>::clone$', 're:^alloc::slice::<impl \\[.*\\]>::to_vec$')
def _(e, c, a, raw): return VecV([clone_val(e, x) for x in V(e, a[0]).slots])
@model('re:^core::slice::<impl \\[.*\\]>::reverse$')
def _(e, c, a, raw): V(e, a[0]).slots.reverse(); return UNIT
@model('re:^core::slice::<impl \\[.*\\]>::(last|last_mut)$', 'VecDeque::back')
def _(e, c, a, raw):
    v = V(e, a[0])
    return SOME(Ref(v.slots, [len(v.slots) - 1])) if v.slots else NONE()
@model('re:^core::slice::<impl \\[.*\\]>::(first|first_mut)$', 'VecDeque::front')
def _(e, c, a, raw):
    v = V(e, a[0])
    return SOME(Ref(v.slots, [0])) if v.slots else NONE()
@model('re:^core::slice::<impl \\[.*\\]>::(get|get_mut)$')
def _(e, c, a, raw):
    v = V(e, a[0]); i = a[1]
    if isinstance(i, Agg):
        lo, hi = range_bounds(e, i, len(v.slots), nopanic=True)
        if lo is None: return NONE()
        return SOME(Agg('slice', v.slots[lo:hi]))
    i = e.concretize_small(i, 0, len(v.slots))
    return SOME(Ref(v.slots, [i])) if 0 <= i < len(v.slots) else NONE()
@model('re:^core::slice::<impl \\[.*\\]>::(split_first|split_last)$')
def _(e, c, a, raw):
    v = V(e, a[0])
    if not v.slots: return NONE()
    if c.endswith('first'): return SOME(Agg('tuple', [Ref(v.slots, [0]), Agg('slice', v.slots[1:])]))
    return SOME(Agg('tuple', [Ref(v.slots, [len(v.slots)-1]), Agg('slice', v.slots[:-1])]))
@model('re:^core::slice::<impl \\[.*\\]>::(iter|iter_mut)$', 'VecDeque::iter')
def _(e, c, a, raw):
    v = V(e, a[0]); return ListIter([Ref(v.slots, [i]) for i in range(len(v.slots))])
@model('re:^core::slice::<impl \\[.*\\]>::contains$')
def _(e, c, a, raw):
    v = V(e, a[0])
    for x in v.slots:
        if e.branch(veq(e, x, a[1])): return True
    return False
@model('re:^core::slice::<impl \\[.*\\]>::swap$')
def _(e, c, a, raw):
    v = V(e, a[0]); i, j = a[1], a[2]; v.slots[i], v.slots[j] = v.slots[j], v.slots[i]; return UNIT
@model('re:^core::slice::<impl \\[.*\\]>::(windows|chunks)$')
def _(e, c, a, raw):
    v = V(e, a[0]); n = a[1]
    if c.endswith('windows'): return ListIter([Agg('slice', v.slots[i:i+n]) for i in range(len(v.slots) - n + 1)])
    return ListIter([Agg('slice', v.slots[i:i+n]) for i in range(0, len(v.slots), n)])
@model('re:^core::slice::<impl \\[.*\\]>::(starts_with|ends_with)$')
def _(e, c, a, raw):
    v = V(e, a[0]).slots; w = V(e, a[1]).slots
    if len(w) > len(v): return False
    part = v[:len(w)] if c.endswith('starts_with') else v[len(v)-len(w):]
    return b_and(*[veq(e, p, q) for p, q in zip(part, w)])
@model('re:^core::slice::<impl \\[.*\\]>::(join|concat)$', 're:^alloc::slice::<impl \\[.*\\]>::(join|concat)$', 're:^slice::<impl \\[.*\\]>::(join|concat)$',
       're:^alloc::str::<impl Join<&str> for \\[.*\\]>::join$')
def _(e, c, a, raw):
    v = V(e, a[0]); sep = None
    if len(a) > 1:
        sep = e.deref(a[1])
    items = [e.deref(x) for x in v.slots]
    if items and isinstance(items[0], Str) or (not items and (sep is None or isinstance(sep, (Str, int)) or is_sym(sep))):
        out = []
        for i, s_ in enumerate(items):
            if i and sep is not None:
                if isinstance(sep, Str): out.extend(sep.chars)
                else: out.append(sep)
            out.extend(s_.chars)
        return Str(out)
    out = []
    for i, s_ in enumerate(items):
        if i and sep is not None: out.extend(V(e, sep).slots if not isinstance(sep, (int,)) else [sep])
        out.extend(V(e, s_).slots)
    return VecV(out)

def range_bounds(e, r, n, nopanic=False):
    r = e.deref(r)
    ty = r.ty
    if ty == 'RangeFull' or not r.slots: lo, hi = 0, n
    elif ty == 'RangeFrom': lo, hi = r.slots[0], n
    elif ty == 'RangeTo': lo, hi = 0, r.slots[0]
    elif ty == 'Range': lo, hi = r.slots[0], r.slots[1]
    elif ty == 'RangeInclusive': lo, hi = r.slots[0], r.slots[1] + 1
    elif ty == 'RangeToInclusive': lo, hi = 0, r.slots[0] + 1
    elif ty == 'tuple':   # (Bound, Bound)
        def bnd(b, dflt, inc):
            if b.variant == 'Unbounded': return dflt
            return b.slots[0] + (inc if b.variant == ('Excluded' if inc == 1 and dflt == 0 else 'Included') else 0)
        b0, b1 = r.slots
        lo = 0 if b0.variant == 'Unbounded' else (b0.slots[0] if b0.variant == 'Included' else b0.slots[0] + 1)
        hi = n if b1.variant == 'Unbounded' else (b1.slots[0] + 1 if b1.variant == 'Included' else b1.slots[0])
    else: raise Unsupported('range ' + ty)
    lo = e.concretize_small(lo, 0, n + 1); hi = e.concretize_small(hi, 0, n + 1)
    if lo > hi or hi > n:
        if nopanic: return None, None
        raise Panic('range %d..%d out of bounds for length %d' % (lo, hi, n))
    return lo, hi

@model('re:^<(Vec<.*>|\\[.*\\]) as Index(Mut)?<(usize)>>::index(_mut)?$', 're:^core::slice::index::<impl Index(Mut)?<usize> for \\[.*\\]>::index(_mut)?$')
def _(e, c, a, raw):
    v = V(e, a[0]); i = e.concretize_small(a[1], 0, len(v.slots))
    if i >= len(v.slots): raise Panic('index out of bounds: the len is %d but the index is %d' % (len(v.slots), i))
    return Ref(v.slots, [i])
@model('re:^<(Vec<.*>|\\[.*\\]) as Index(Mut)?<.*Range.*>>::index(_mut)?$', 're:^core::slice::index::<impl Index(Mut)?<.*Range.*> for \\[.*\\]>::index(_mut)?$')
def _(e, c, a, raw):
    v = V(e, a[0]); lo, hi = range_bounds(e, a[1], len(v.slots))
    if lo == 0 and hi == len(v.slots) and isinstance(a[0], Ref): return e.deref1(a[0])
    return Agg('slice', v.slots[lo:hi])   # a copy: writes through the sub-slice are not modelled

def sort_by(e, items, less_eq):
    """stable insertion sort driven by the program's comparator"""
    out = []
    for x in items:
        i = len(out)
        while i > 0 and not less_eq(out[i-1], x): i -= 1
        out.insert(i, x)
    return out

def ord_of(e, r):
    r = e.deref(r)
    if isinstance(r, EnumV) and r.ty == 'Option': r = r.slots[0] if r.variant == 'Some' else EnumV('Ordering', 'Equal')
    return r.variant

def generic_cmp(e, x, y, crate):
    """Ord::cmp on arbitrary values: strings, ints, tuples; user types through their impl"""
    x = e.deref(x); y = e.deref(y)
    if isinstance(x, Str):
        from .models_str import str_cmp
        return str_cmp(e, x, y)
    if isinstance(x, (int,)) or is_sym(x):
        if e.branch(x < y): return 'Less'
        return 'Equal' if e.branch(s_eq(x, y)) else 'Greater'
    if isinstance(x, Agg) and x.ty == 'tuple' or isinstance(x, VecV):
        for p, q in zip(x.slots, y.slots):
            r = generic_cmp(e, p, q, crate)
            if r != 'Equal': return r
        if len(x.slots) == len(y.slots): return 'Equal'
        return 'Less' if len(x.slots) < len(y.slots) else 'Greater'
    if isinstance(x, EnumV) and x.ty == 'Option':
        if x.variant != y.variant: return 'Less' if x.variant == 'None' else 'Greater'
        if x.variant == 'None': return 'Equal'
        return generic_cmp(e, x.slots[0], y.slots[0], crate)
    if isinstance(x, Opaque) and x.kind == 'Version':
        from .models_ext import version_cmp
        return {-1: 'Less', 0: 'Equal', 1: 'Greater'}[version_cmp(e, x, y)]
    if isinstance(x, EnumV) and x.ty == 'Cow': return generic_cmp(e, x.slots[0], y.slots[0] if isinstance(y, EnumV) and y.ty == 'Cow' else y, crate)
    if isinstance(x, (Agg, EnumV)):
        r = e.call_path(crate, '<%s as Ord>::cmp' % x.ty, [Ref([x], [0]), Ref([y], [0])])
        return ord_of(e, r)
    raise Unsupported('cmp of ' + type(x).__name__)

@model('re:^(core|alloc)::slice::<impl \\[.*\\]>::(sort|sort_unstable)$', 're:^slice::<impl \\[.*\\]>::(sort|sort_unstable)$')
def _(e, c, a, raw):
    v = V(e, a[0]); crate = e._call_crate
    v.slots[:] = sort_by(e, v.slots, lambda p, q: generic_cmp(e, p, q, crate) != 'Greater'); return UNIT
@model('re:^(core|alloc)::slice::<impl \\[.*\\]>::(sort_by|sort_unstable_by)$', 're:^slice::<impl \\[.*\\]>::(sort_by|sort_unstable_by)$')
def _(e, c, a, raw):
    v = V(e, a[0]); f = a[1]
    v.slots[:] = sort_by(e, v.slots, lambda p, q: ord_of(e, e.call_value(f, [Ref([p], [0]), Ref([q], [0])])) != 'Greater'); return UNIT
@model('re:^(core|alloc)::slice::<impl \\[.*\\]>::(sort_by_key|sort_unstable_by_key|sort_by_cached_key)$', 're:^slice::<impl \\[.*\\]>::(sort_by_key|sort_unstable_by_key|sort_by_cached_key)$')
def _(e, c, a, raw):
    v = V(e, a[0]); f = a[1]; crate = e._call_crate
    keyed = [(e.call_value(f, [Ref([x], [0])]), x) for x in v.slots]
    keyed = sort_by(e, keyed, lambda p, q: generic_cmp(e, p[0], q[0], crate) != 'Greater')
    v.slots[:] = [x for _, x in keyed]; return UNIT
@model('re:^<(Ordering|std::cmp::Ordering) as PartialEq>::eq$')
def _(e, c, a, raw): return e.deref(a[0]).variant == e.deref(a[1]).variant
@model('Ordering::then', 'std::cmp::Ordering::then')
def _(e, c, a, raw): return a[1] if a[0].variant == 'Equal' else a[0]
@model('Ordering::then_with', 'std::cmp::Ordering::then_with')
def _(e, c, a, raw): return e.call_value(a[1], []) if a[0].variant == 'Equal' else a[0]
@model('Ordering::reverse', 'std::cmp::Ordering::reverse')
def _(e, c, a, raw): return EnumV('Ordering', {'Less': 'Greater', 'Equal': 'Equal', 'Greater': 'Less'}[a[0].variant])
@model('Ordering::is_eq', 'Ordering::is_ne', 'Ordering::is_lt', 'Ordering::is_gt', 'Ordering::is_le', 'Ordering::is_ge')
def _(e, c, a, raw):
    v = a[0].variant; f = c.rsplit('::', 1)[1]
    return {'is_eq': v == 'Equal', 'is_ne': v != 'Equal', 'is_lt': v == 'Less', 'is_gt': v == 'Greater', 'is_le': v != 'Greater', 'is_ge': v != 'Less'}[f]
@model('re:^<(usize|u\\d+|i\\d+|isize|char|bool) as (Ord|PartialOrd)>::(cmp|partial_cmp)$', 're:^core::cmp::impls::<impl (Ord|PartialOrd) for (usize|u\\d+|i\\d+|isize|char|bool)>::(cmp|partial_cmp)$')
def _(e, c, a, raw):
    r = EnumV('Ordering', generic_cmp(e, a[0], a[1], None))
    return SOME(r) if c.endswith('partial_cmp') else r
@model('re:^<(Vec<.*>|Option<.*>|\\(.*\\)|&.*) as (Ord|PartialOrd.*)>::(cmp|partial_cmp)$', 're:^core::cmp::impls::<impl (Ord|PartialOrd.*) for &.*>::(cmp|partial_cmp)$',
       're:^core::slice::cmp::<impl (Ord|PartialOrd) for \\[.*\\]>::(cmp|partial_cmp)$', 're:^core::tuple::<impl (Ord|PartialOrd) for \\(.*\\)>::(cmp|partial_cmp)$',
       're:^core::option::<impl (Ord|PartialOrd) for Option<.*>>::(cmp|partial_cmp)$')
def _(e, c, a, raw):
    r = EnumV('Ordering', generic_cmp(e, a[0], a[1], e._call_crate))
    return SOME(r) if c.endswith('partial_cmp') else r

# ---- HashMap / HashSet (association lists) ------------------------------------------------------
def M(e, v):
    v = e.deref(v)
    if isinstance(v, (MapV, SetV)): return v
    raise Unsupported('expected a map/set')
@model('HashMap::new', 'BTreeMap::new', 'HashMap::with_capacity')
def _(e, c, a, raw): return MapV()
@model('HashSet::new', 'BTreeSet::new', 'HashSet::with_capacity')
def _(e, c, a, raw): return SetV()
@model('HashMap::insert', 'BTreeMap::insert')
def _(e, c, a, raw):
    m = M(e, a[0]); p = m.find(e, a[1])
    if p is None: m.items.append([a[1], a[2]]); return NONE()
    old = p[1]; p[1] = a[2]; return SOME(old)
@model('HashMap::get', 'BTreeMap::get', 'HashMap::get_mut', 'BTreeMap::get_mut')
def _(e, c, a, raw):
    m = M(e, a[0]); p = m.find(e, a[1])
    return NONE() if p is None else SOME(Ref(p, [1]))
@model('HashMap::contains_key', 'BTreeMap::contains_key')
def _(e, c, a, raw): return M(e, a[0]).find(e, a[1]) is not None
@model('HashMap::remove', 'BTreeMap::remove')
def _(e, c, a, raw):
    m = M(e, a[0]); p = m.find(e, a[1])
    if p is None: return NONE()
    m.items.remove(p); return SOME(p[1])
@model('HashMap::len', 'BTreeMap::len', 'HashSet::len', 'BTreeSet::len')
def _(e, c, a, raw): return len(M(e, a[0]).items)
@model('HashMap::is_empty', 'BTreeMap::is_empty', 'HashSet::is_empty', 'BTreeSet::is_empty')
def _(e, c, a, raw): return len(M(e, a[0]).items) == 0
@model('HashMap::iter', 'BTreeMap::iter')
def _(e, c, a, raw): return ListIter([Agg('tuple', [Ref(p, [0]), Ref(p, [1])]) for p in M(e, a[0]).items])
@model('HashMap::keys', 'BTreeMap::keys')
def _(e, c, a, raw): return ListIter([Ref(p, [0]) for p in M(e, a[0]).items])
@model('HashMap::values', 'BTreeMap::values')
def _(e, c, a, raw): return ListIter([Ref(p, [1]) for p in M(e, a[0]).items])
@model('HashSet::insert', 'BTreeSet::insert')
def _(e, c, a, raw):
    s = M(e, a[0])
    if s.has(e, a[1]): return False
    s.items.append(a[1]); return True
@model('HashSet::contains', 'BTreeSet::contains')
def _(e, c, a, raw): return M(e, a[0]).has(e, a[1])
@model('HashSet::iter', 'BTreeSet::iter')
def _(e, c, a, raw):
    s = M(e, a[0]); return ListIter([Ref(s.items, [i]) for i in range(len(s.items))])
@model('re:^<HashMap<.*> as Index<.*>>::index$')
def _(e, c, a, raw):
    p = M(e, a[0]).find(e, a[1])
    if p is None: raise Panic('HashMap index: key not found')
    return Ref(p, [1])
