"""Dump MIR of the five workspace crates from /repo's *current* working tree.

The dump is keyed by a content hash of every file that can influence it (all *.rs,
Cargo.toml, Cargo.lock under /repo, excluding target/), so a run on an unchanged tree reuses
the text dumped for exactly that tree and any edit triggers a real re-dump.
"""
import hashlib, os, subprocess, sys, time, glob, shutil

REPO = os.environ.get('VERIF_REPO', '/repo')
WORK = os.path.join(os.path.dirname(os.path.dirname(os.path.abspath(__file__))), '.work')

# (short name, cargo package, crate dir relative to REPO, extra cargo args)
CRATES = [
    ('deb822', 'deb822-lossless', '.', ['--features', 'derive']),
    ('control', 'debian-control', 'debian-control', []),
    ('copyright', 'debian-copyright', 'debian-copyright', []),
    ('dep3', 'dep3', 'dep3', []),
    ('aptsources', 'apt-sources', 'apt-sources', []),
]
CRATE_OF_RUSTNAME = {'deb822_lossless': 'deb822', 'debian_control': 'control', 'debian_copyright': 'copyright',
                     'dep3': 'dep3', 'apt_sources': 'aptsources'}


def tree_hash(repo=REPO):
    h = hashlib.sha256()
    files = []
    for root, dirs, fs in os.walk(repo):
        dirs[:] = [d for d in dirs if d not in ('target', '.git')]
        for f in fs:
            if f.endswith('.rs') or f in ('Cargo.toml', 'Cargo.lock'):
                files.append(os.path.join(root, f))
    for f in sorted(files):
        h.update(os.path.relpath(f, repo).encode()); h.update(b'\0')
        h.update(open(f, 'rb').read()); h.update(b'\0')
    return h.hexdigest()


def dump_all(force=False, verbose=True):
    """returns {short: path-to-mir-text}; raises RuntimeError when the tree does not compile."""
    th = tree_hash()
    outdir = os.path.join(WORK, 'mir', th[:16])
    done = os.path.join(outdir, 'DONE')
    res = {c[0]: os.path.join(outdir, c[0] + '.mir') for c in CRATES}
    if os.path.exists(done) and not force:
        return res, th, 0.0
    os.makedirs(outdir, exist_ok=True)
    tdir = os.path.join(WORK, 'target-nightly')
    t0 = time.time()
    env = dict(os.environ, CARGO_NET_OFFLINE='true', CARGO_TARGET_DIR=tdir, RUSTUP_TOOLCHAIN='nightly')
    env.pop('RUSTFLAGS', None)
    for short, pkg, d, extra in CRATES:
        # make rustc really re-run for this crate
        for fp in glob.glob(os.path.join(tdir, 'debug', '.fingerprint', pkg + '-*')):
            shutil.rmtree(fp, ignore_errors=True)
        cmd = ['cargo', 'rustc', '--offline', '-p', pkg, '--lib'] + extra + ['--', '-Zunpretty=mir',
               '-C', 'debug-assertions=off', '-C', 'overflow-checks=on']
        p = subprocess.run(cmd, cwd=REPO, env=env, stdout=subprocess.PIPE, stderr=subprocess.PIPE)
        if p.returncode != 0 or len(p.stdout) < 1000:
            raise RuntimeError('MIR dump failed for %s:\n%s' % (pkg, p.stderr.decode()[-4000:]))
        open(res[short], 'wb').write(p.stdout)
        if verbose:
            print('[mirdump] %s: %d bytes (%.1fs)' % (pkg, len(p.stdout), time.time() - t0), file=sys.stderr)
    open(done, 'w').write(th)
    # keep only the 3 newest dumps
    dirs = sorted(glob.glob(os.path.join(WORK, 'mir', '*')), key=os.path.getmtime)
    for old in dirs[:-3]:
        shutil.rmtree(old, ignore_errors=True)
    return res, th, time.time() - t0


def dump_verbose(short):
    """second dump of one crate with -Zverbose-internals (closure types print with their {closure#N} path); cached per tree"""
    th = tree_hash()
    outdir = os.path.join(WORK, 'mir', th[:16])
    path = os.path.join(outdir, short + '.v.mir')
    if os.path.exists(path) and os.path.getsize(path) > 1000: return path
    os.makedirs(outdir, exist_ok=True)
    tdir = os.path.join(WORK, 'target-nightly')
    env = dict(os.environ, CARGO_NET_OFFLINE='true', CARGO_TARGET_DIR=tdir, RUSTUP_TOOLCHAIN='nightly')
    env.pop('RUSTFLAGS', None)
    for sh, pkg, d, extra in CRATES:
        if sh != short: continue
        for fp in glob.glob(os.path.join(tdir, 'debug', '.fingerprint', pkg + '-*')):
            shutil.rmtree(fp, ignore_errors=True)
        cmd = ['cargo', 'rustc', '--offline', '-p', pkg, '--lib'] + extra + ['--', '-Zunpretty=mir', '-Zverbose-internals',
               '-C', 'debug-assertions=off', '-C', 'overflow-checks=on']
        p = subprocess.run(cmd, cwd=REPO, env=env, stdout=subprocess.PIPE, stderr=subprocess.PIPE)
        if p.returncode != 0 or len(p.stdout) < 1000:
            raise RuntimeError('verbose MIR dump failed for %s:\n%s' % (pkg, p.stderr.decode()[-3000:]))
        tmp = path + '.tmp%d' % os.getpid()
        open(tmp, 'wb').write(p.stdout); os.replace(tmp, path)
        return path
    raise RuntimeError('unknown crate ' + short)


if __name__ == '__main__':
    r, th, dt = dump_all(force='--force' in sys.argv)
    print(th, dt)
    for k, v in r.items(): print(k, v)
