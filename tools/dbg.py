"""debug helper: run one harness case single-process, print outcome per path (first K paths)"""
import sys, os, json, traceback
sys.path.insert(0, '/verif')
from mirsym import mirdump, runner, replay
from mirsym.engine import Engine, Program
from mirsym.values import *
import importlib
mod = importlib.import_module('props.' + sys.argv[1].lower())
case = json.loads(sys.argv[2])
K = int(sys.argv[3]) if len(sys.argv) > 3 else 20
mirfiles, th, _ = mirdump.dump_all()
prog = Program(mirfiles, mirdump.REPO)
e = Engine(prog)
if hasattr(mod, 'install'): mod.install(e)
h = mod.HARNESS
rp = replay.Replay(replay.build())
e.native = rp
work = [[]]; n = 0
import collections
kinds = collections.Counter()
while work and n < K:
    prefix = work.pop()
    try:
        rec, w, pc = runner.run_one(e, h, case, prefix)
    except Exception:
        traceback.print_exc(); break
    work.extend(rec['alts'])
    if rec['kind'] == 'infeasible': continue
    n += 1; kinds[rec['kind']] += 1
    nat = rp.call(h.request(case, w)) if w is not None else None
    v = h.oracle(case, w, nat) if nat is not None else None
    cmp_ = h.compare(case, pc, nat) if (pc is not None and nat is not None and not v) else None
    if os.environ.get('ALL') or rec['kind'] != 'ok' or v or cmp_:
        print(n, rec['kind'], rec['msg'][:200], json.dumps(w)[:200], 'VIOL=%s' % v if v else '', 'DIFF=%s' % cmp_ if cmp_ else '')
print(kinds, 'left', len(work))
