#!/bin/bash
# verify_seeded.sh <seeded-dir>... : confirm each mutation in a scratch worktree: existing tests pass with it, the demo fails with it and passes without
set -u
WT=/tmp/vt-verify
git -C /repo worktree remove --force $WT 2>/dev/null
git -C /repo worktree add -q --detach $WT HEAD || exit 2
export CARGO_TARGET_DIR=$WT/target CARGO_NET_OFFLINE=true
for d in "$@"; do
  name=$(basename $d)
  cd $WT && git checkout -q -- . && git clean -fdq -e target
  place=$(head -1 $d/demo.rs | grep -oE '[A-Za-z0-9_./-]+seeded_demo\.rs' | head -1)
  [ -z "$place" ] && place=tests/seeded_demo.rs
  pkgdir=$(dirname $(dirname $place)); pkg=""
  case "$pkgdir" in .|"") pkg="-p deb822-lossless";; *) pkg="-p $(basename $pkgdir)";; esac
  feat=$(head -5 $d/demo.rs | grep -oE -- '--features [A-Za-z0-9,_-]+' | head -1)
  mkdir -p $(dirname $WT/$place)
  # 1. demo on the original code
  cp $d/demo.rs $WT/$place
  cargo test --offline $pkg $feat --test seeded_demo >/tmp/vt-$name-orig.log 2>&1; orig=$?
  rm -f $WT/$place
  # 2. apply; existing suite
  git apply $d/patch.diff || { echo "$name: PATCH DOES NOT APPLY"; continue; }
  cargo test --workspace --no-fail-fast --offline >/tmp/vt-$name-suite.log 2>&1; suite=$?
  # 3. demo with the change
  cp $d/demo.rs $WT/$place
  cargo test --offline $pkg $feat --test seeded_demo >/tmp/vt-$name-mut.log 2>&1; mut=$?
  echo "$name: demo_on_original=$orig (want 0) suite_with_change=$suite (want 0) demo_with_change=$mut (want !=0)"
  echo "{\"demo_on_original_exit\": $orig, \"suite_with_change_exit\": $suite, \"demo_with_change_exit\": $mut, \"demo_path\": \"$place\"}" > $d/verified.json
done
cd /; git -C /repo worktree remove --force $WT
