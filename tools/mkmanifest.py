"""(re)generate MANIFEST.json from the table below; validates against the schema"""
import json, sys, os
sys.path.insert(0, '/verif')
ALL = ['C%02d' % i for i in range(1, 21)]
CLAIMED = json.load(open('/verif/tools/claimed.json'))
checks = []
for pid in ALL:
    if pid not in CLAIMED: continue
    c = CLAIMED[pid]
    checks.append({
        'property_id': pid,
        'quick_cmd': './check %s --tier quick' % pid,
        'thorough_cmd': './check %s --tier thorough' % pid,
        'evidence_file': 'evidence/%s.json' % pid,
        'replay_cmd_template': './check %s --replay {path}' % pid,
        'engine': 'mirsym',
        'level_claimed': {'category': 'model_checking', 'text': c['text'], 'design_ref': c.get('design_ref', 'DESIGN.md §6 ' + pid)},
        'level_note': c['note'],
        'technique': c.get('technique', 'bounded symbolic execution of the rustc MIR (z3 decides every branch and the property assertion per path); every path witness replayed natively'),
    })
na = [{'property_id': p, 'reason': json.load(open('/verif/tools/na.json')).get(p, 'harness not completed within budget (DESIGN.md §9); no weaker non-solver check is substituted')} for p in ALL if p not in CLAIMED]
m = {
    'version': 1,
    'setup_cmd': './check setup',
    'hooks': {'guard': 'jelmer_deb822_lossless_verif', 'enable': 'none needed: the encoder reads private items from the MIR dump and the replay binary uses only the public API',
              'baseline_off_cmd': 'cd /repo && cargo test --workspace --no-fail-fast --offline', 'source_commits': [], 'add_only': True},
    'engines': [
        {'name': 'mirsym', 'path': 'mirsym/', 'serves_properties': sorted(CLAIMED), 'kind_free_text': 'forking symbolic executor (Python + z3) over rustc -Zunpretty=mir dumps of the five crates, regenerated from /repo on every run; std/rowan calls answered by semantic models'},
        {'name': 'replay', 'path': 'replay/', 'serves_properties': sorted(CLAIMED), 'kind_free_text': 'Rust binary with path dependencies on /repo: runs each solver witness through the real public API (translation validation of every explored path, and the only source of VIOLATION lines)'},
    ],
    'checks': checks,
    'not_applicable': na,
    'notes': 'Exit codes: 0 held (KNOWN-FINDING lines allowed), 1 natively reproduced violation, 2 inconclusive (build failure / worker error). Fix commits in /repo are listed in known_findings.json as fixed entries.',
}
json.dump(m, open('/verif/MANIFEST.json', 'w'), indent=1)
import jsonschema
jsonschema.validate(m, json.load(open('/root/.vp/MANIFEST.schema.json')))
for c in checks:
    p = '/verif/' + c['evidence_file']
    if os.path.exists(p):
        jsonschema.validate(json.load(open(p)), json.load(open('/root/.vp/EVIDENCE.schema.json')))
print('manifest ok: claimed', sorted(CLAIMED), 'n/a', len(na))
