"""Generate /verif/replay/src/gen_accessors.rs from the accessor table read out of /repo's current source (tools/accessors.py).
One function per typed view: open the view on the first paragraph of a document text, apply setter steps, after every step report the
document text and the JSON rendering of the requested getters.  Accessors whose argument / return types have no template are skipped
and listed in SKIPPED (the harness reports them as not covered)."""
import os, sys, json, hashlib
sys.path.insert(0, os.path.dirname(os.path.abspath(__file__)))
import accessors

OUT = '/verif/replay/src/gen_accessors.rs'

RUST_TYPE = {
    ('control', 'lossless::control', 'Source'): 'debian_control::lossless::control::Source',
    ('control', 'lossless::control', 'Binary'): 'debian_control::lossless::control::Binary',
    ('control', 'lossless::apt', 'Source'): 'debian_control::lossless::apt::Source',
    ('control', 'lossless::apt', 'Package'): 'debian_control::lossless::apt::Package',
    ('control', 'lossless::apt', 'Release'): 'debian_control::lossless::apt::Release',
    ('control', 'lossless::changes', 'Changes'): 'debian_control::lossless::changes::Changes',
    ('control', 'lossless::buildinfo', 'Buildinfo'): 'debian_control::lossless::buildinfo::Buildinfo',
    ('copyright', 'lossless', 'Header'): 'debian_copyright::lossless::Header',
    ('copyright', 'lossless', 'FilesParagraph'): 'debian_copyright::lossless::FilesParagraph',
    ('copyright', 'lossless', 'LicenseParagraph'): 'debian_copyright::lossless::LicenseParagraph',
    ('dep3', 'lossless', 'PatchHeader'): 'dep3::lossless::PatchHeader',
}
# how the view is opened on `text`; `doc` stays alive to print the whole text afterwards
OPEN = {
    'Source@lossless::control': ('let doc: deb822_lossless::Deb822 = text.parse().unwrap(); let mut x: T = doc.paragraphs().next().unwrap().into();', 'doc.to_string()'),
    'Binary@lossless::control': ('let doc: deb822_lossless::Deb822 = text.parse().unwrap(); let mut x: T = doc.paragraphs().next().unwrap().into();', 'doc.to_string()'),
    'Source@lossless::apt': ('let doc: deb822_lossless::Deb822 = text.parse().unwrap(); let mut x: T = doc.paragraphs().next().unwrap().into();', 'doc.to_string()'),
    'Package@lossless::apt': ('let doc: deb822_lossless::Deb822 = text.parse().unwrap(); let mut x: T = T::new(doc.paragraphs().next().unwrap());', 'doc.to_string()'),
    'Release@lossless::apt': ('let doc: deb822_lossless::Deb822 = text.parse().unwrap(); let mut x: T = T::new(doc.paragraphs().next().unwrap());', 'doc.to_string()'),
    'Buildinfo@lossless::buildinfo': ('let doc: deb822_lossless::Deb822 = text.parse().unwrap(); let mut x: T = doc.paragraphs().next().unwrap().into();', 'doc.to_string()'),
    'Changes@lossless::changes': ('let (mut x, _errs) = T::read_relaxed(text.as_bytes()).unwrap(); let doc = ();', '{ let _ = &doc; String::new() }'),
    'PatchHeader@lossless': ('let mut x: T = text.parse().unwrap(); let doc = ();', '{ let _ = &doc; x.as_deb822().to_string() }'),
    'Header@lossless': ('let doc: debian_copyright::lossless::Copyright = text.parse().unwrap(); let mut x: T = doc.header().unwrap();', 'doc.to_string()'),
    'FilesParagraph@lossless': ('let doc: debian_copyright::lossless::Copyright = text.parse().unwrap(); let mut x: T = doc.iter_files().next().unwrap();', 'doc.to_string()'),
    'LicenseParagraph@lossless': ('let doc: debian_copyright::lossless::Copyright = text.parse().unwrap(); let mut x: T = doc.iter_licenses().next().unwrap();', 'doc.to_string()'),
}

REL = 'debian_control::lossless::relations::Relations'


def cks(ty, field):
    return 'a[@I@].as_array().unwrap().iter().map(|c| debian_control::fields::%s { %s: js(&c[0]), size: c[1].as_u64().unwrap() as usize, filename: js(&c[2]) }).collect::<Vec<_>>()' % (ty, field)


# argument type -> (prelude statement template using @I@, expression passed)
ARG = {
    '&str': ('let s@I@ = js(&a[@I@]);', '&s@I@'),
    'Option<&str>': ('', 'a[@I@].as_str()'),
    'bool': ('', 'a[@I@].as_bool().unwrap()'),
    'usize': ('', 'a[@I@].as_u64().unwrap() as usize'),
    '&Relations': ('let r@I@: %s = js(&a[@I@]).parse().unwrap();' % REL, '&r@I@'),
    'Relations': ('let r@I@: %s = js(&a[@I@]).parse().unwrap();' % REL, 'r@I@'),
    'Option<&Relations>': ('let r@I@: Option<%s> = a[@I@].as_str().map(|s| s.parse().unwrap());' % REL, 'r@I@.as_ref()'),
    'Vec<String>': ('', 'a[@I@].as_array().unwrap().iter().map(js).collect::<Vec<String>>()'),
    '&[&str]': ('let v@I@: Vec<String> = a[@I@].as_array().unwrap().iter().map(js).collect(); let w@I@: Vec<&str> = v@I@.iter().map(|s| s.as_str()).collect();', '&w@I@'),
    'Priority': ('', 'js(&a[@I@]).parse::<debian_control::fields::Priority>().unwrap()'),
    'Option<Priority>': ('', 'a[@I@].as_str().map(|s| s.parse::<debian_control::fields::Priority>().unwrap())'),
    'MultiArch': ('', 'js(&a[@I@]).parse::<debian_control::fields::MultiArch>().unwrap()'),
    'Option<MultiArch>': ('', 'a[@I@].as_str().map(|s| s.parse::<debian_control::fields::MultiArch>().unwrap())'),
    'debversion::Version': ('', 'js(&a[@I@]).parse::<debversion::Version>().unwrap()'),
    '&url::Url': ('let u@I@: url::Url = js(&a[@I@]).parse().unwrap();', '&u@I@'),
    'chrono::DateTime<chrono::FixedOffset>': ('', 'chrono::DateTime::parse_from_rfc2822(&js(&a[@I@])).unwrap()'),
    'chrono::NaiveDate': ('', 'chrono::NaiveDate::parse_from_str(&js(&a[@I@]), "%Y-%m-%d").unwrap()'),
    'Vec<Md5Checksum>': ('', cks('Md5Checksum', 'md5sum')),
    'Vec<Sha1Checksum>': ('', cks('Sha1Checksum', 'sha1')),
    'Vec<Sha256Checksum>': ('', cks('Sha256Checksum', 'sha256')),
    'Vec<Sha512Checksum>': ('', cks('Sha512Checksum', 'sha512')),
    'std::collections::HashMap<String, String>': ('', 'a[@I@].as_array().unwrap().iter().map(|p| (js(&p[0]), js(&p[1]))).collect::<std::collections::HashMap<String, String>>()'),
    '&License': ('let l@I@ = mk_license(&a[@I@]);', '&l@I@'),
    'Option<OriginCategory>': ('', 'a[@I@].as_str().map(|s| s.parse::<dep3::OriginCategory>().unwrap())'),
    'Origin': ('', 'mk_origin(&a[@I@])'),
    'Forwarded': ('', 'mk_forwarded(&a[@I@])'),
    'AppliedUpstream': ('', 'mk_applied(&a[@I@])'),
}


def ckj(field): return 'json!(r.iter().map(|c| json!([c.%s, c.size, c.filename])).collect::<Vec<_>>())' % field
def ckjo(field): return 'match r { Some(r) => json!(r.iter().map(|c| json!([c.%s, c.size, c.filename])).collect::<Vec<_>>()), None => Value::Null }' % field


# getter return type -> expression turning `r` into a serde_json Value
RET = {
    'Option<String>': 'json!(r)', 'Vec<String>': 'json!(r)', 'Option<Vec<String>>': 'json!(r)', 'bool': 'json!(r)', 'Option<bool>': 'json!(r)', 'Option<usize>': 'json!(r)',
    'Option<Relations>': 'json!(r.map(|x| x.to_string()))',
    'Option<Priority>': 'json!(r.map(|x| x.to_string()))', 'Option<MultiArch>': 'json!(r.map(|x| x.to_string()))',
    'Option<crate::fields::Urgency>': 'json!(r.map(|x| x.to_string()))',
    'Option<debversion::Version>': 'json!(r.map(|x| x.to_string()))',
    'Option<url::Url>': 'json!(r.map(|x| x.as_str().to_string()))',
    'Option<chrono::DateTime<chrono::FixedOffset>>': 'json!(r.map(|x| x.to_rfc2822()))',
    'Option<chrono::NaiveDate>': 'json!(r.map(|x| x.format("%Y-%m-%d").to_string()))',
    'Vec<Md5Checksum>': ckj('md5sum'), 'Vec<Sha1Checksum>': ckj('sha1'), 'Vec<Sha256Checksum>': ckj('sha256'), 'Vec<Sha512Checksum>': ckj('sha512'),
    'Option<Vec<crate::fields::Sha1Checksum>>': ckjo('sha1'), 'Option<Vec<crate::fields::Sha256Checksum>>': ckjo('sha256'),
    'Option<Vec<File>>': 'match r { Some(r) => json!(r.iter().map(|c| json!([c.md5sum, c.size, c.section, c.priority.to_string(), c.filename])).collect::<Vec<_>>()), None => Value::Null }',
    'Option<std::collections::HashMap<String, String>>': 'match r { Some(m) => { let mut v: Vec<(String, String)> = m.into_iter().collect(); v.sort(); json!(v) }, None => Value::Null }',
    'Option<License>': 'match r { Some(l) => license_json(&l), None => Value::Null }',
    'Option<(Option<OriginCategory>, Origin)>': 'match r { Some((c, o)) => json!({"category": c.map(|c| c.to_string()), "origin": origin_json(&o)}), None => Value::Null }',
    'Option<Forwarded>': 'match r { Some(f) => forwarded_json(&f), None => Value::Null }',
    'Option<AppliedUpstream>': 'match r { Some(f) => applied_json(&f), None => Value::Null }',
    "impl Iterator<Item = (Option<String>, String)> + '_": 'json!(r.collect::<Vec<_>>())',
    'Option<crate::vcs::Vcs>': 'json!(r.map(|x| format!("{:?}", x)))',
}

HELPERS = r'''
fn js(v: &Value) -> String { v.as_str().unwrap_or("").to_string() }
fn guard<F: FnOnce() -> Value>(f: F) -> Value {
    match catch_unwind(AssertUnwindSafe(f)) {
        Ok(v) => v,
        Err(p) => { let msg = if let Some(s) = p.downcast_ref::<&str>() { s.to_string() } else if let Some(s) = p.downcast_ref::<String>() { s.clone() } else { "panic".to_string() }; json!({"panic": msg}) }
    }
}
fn mk_license(v: &Value) -> debian_copyright::License {
    match v["kind"].as_str().unwrap_or("Name") { "Named" => debian_copyright::License::Named(js(&v["name"]), js(&v["text"])), "Text" => debian_copyright::License::Text(js(&v["text"])), _ => debian_copyright::License::Name(js(&v["name"])) }
}
fn license_json(l: &debian_copyright::License) -> Value {
    match l { debian_copyright::License::Name(n) => json!({"kind": "Name", "name": n, "text": Value::Null}), debian_copyright::License::Text(t) => json!({"kind": "Text", "name": Value::Null, "text": t}), debian_copyright::License::Named(n, t) => json!({"kind": "Named", "name": n, "text": t}) }
}
fn mk_origin(v: &Value) -> dep3::Origin { if js(&v[0]) == "Commit" { dep3::Origin::Commit(js(&v[1])) } else { dep3::Origin::Other(js(&v[1])) } }
fn origin_json(o: &dep3::Origin) -> Value { match o { dep3::Origin::Commit(s) => json!(["Commit", s]), dep3::Origin::Other(s) => json!(["Other", s]) } }
fn mk_forwarded(v: &Value) -> dep3::Forwarded { match js(&v[0]).as_str() { "No" => dep3::Forwarded::No, "NotNeeded" => dep3::Forwarded::NotNeeded, _ => dep3::Forwarded::Yes(js(&v[1])) } }
fn forwarded_json(f: &dep3::Forwarded) -> Value { match f { dep3::Forwarded::No => json!(["No", Value::Null]), dep3::Forwarded::NotNeeded => json!(["NotNeeded", Value::Null]), dep3::Forwarded::Yes(s) => json!(["Yes", s]) } }
fn mk_applied(v: &Value) -> dep3::AppliedUpstream { if js(&v[0]) == "Commit" { dep3::AppliedUpstream::Commit(js(&v[1])) } else { dep3::AppliedUpstream::Other(js(&v[1])) } }
fn applied_json(f: &dep3::AppliedUpstream) -> Value { match f { dep3::AppliedUpstream::Commit(s) => json!(["Commit", s]), dep3::AppliedUpstream::Other(s) => json!(["Other", s]) } }
'''


def type_key(r): return '%s@%s' % (r['type'], r['module'])


def generate():
    tab = accessors.table()
    by_type = {}
    for r in tab:
        k = (r['crate'], r['module'], r['type'])
        if k in RUST_TYPE: by_type.setdefault(k, []).append(r)
    sig = hashlib.sha256(json.dumps(tab, sort_keys=True).encode()).hexdigest()[:16]
    out = ['// GENERATED by tools/gen_accessors.py from /repo source; table hash %s. Do not edit.' % sig,
           '#![allow(unused_variables, unused_mut, unused_imports, clippy::all)]',
           'use serde_json::{json, Value};', 'use std::panic::{catch_unwind, AssertUnwindSafe};', HELPERS]
    skipped = []; disp = []
    for k, rows in sorted(by_type.items()):
        T = RUST_TYPE[k]; fname = 'acc_' + '_'.join([k[0]] + k[1].split('::') + [k[2]])
        opener, printer = OPEN[type_key(rows[0])]
        set_arms = []; get_arms = []
        seen_get = set()
        for r in rows:
            if r['setter']:
                if all(a in ARG for a in r['args']):
                    pre = ' '.join(ARG[a][0].replace('@I@', str(i)) for i, a in enumerate(r['args']) if ARG[a][0])
                    call = ', '.join(ARG[a][1].replace('@I@', str(i)) for i, a in enumerate(r['args']))
                    set_arms.append('            "%s" => { %s x.%s(%s); }' % (r['setter'], pre, r['setter'], call))
                else: skipped.append([T, r['setter'], r['args']])
            g = r['getter']
            if g and g not in seen_get and r['ret'] in RET:
                seen_get.add(g)
                extra = 'ga' if (g == 'tags') else ''
                callg = 'x.%s(%s)' % (g, '&js(&ga[0])' if g == 'tags' else '')
                get_arms.append('            "%s" => guard(|| { let r = %s; %s }),' % (g, callg, RET[r['ret']]))
            elif g and g not in seen_get and r['ret'] not in (None,) and not r['ret'].startswith('&'): skipped.append([T, g, r['ret']])
        disp.append('        "%s::%s::%s" => %s(text, steps, getters, ga),' % (k[0], k[1], k[2], fname))
        out.append('''
fn %s(text: &str, steps: &[Value], getters: &[Value], ga: &[Value]) -> Value {
    type T = %s;
    %s
    let mut states: Vec<Value> = vec![];
    let mut failed: Option<Value> = None;
    for k in 0..=steps.len() {
        if k > 0 {
            let st = &steps[k - 1];
            let a: Vec<Value> = st["args"].as_array().cloned().unwrap_or_default();
            let name = js(&st["setter"]);
            let r = catch_unwind(AssertUnwindSafe(|| { match name.as_str() {
%s
            other => panic!("unknown setter {}", other),
            } }));
            if let Err(p) = r {
                let msg = if let Some(s) = p.downcast_ref::<&str>() { s.to_string() } else if let Some(s) = p.downcast_ref::<String>() { s.clone() } else { "panic".to_string() };
                failed = Some(json!({"step": k - 1, "panic": msg})); break;
            }
        }
        let mut get = serde_json::Map::new();
        for g in getters { let gname = js(g); let v = match gname.as_str() {
%s
            other => json!({"error": format!("unknown getter {}", other)}),
        }; get.insert(gname, v); }
        let text_now: String = %s;
        states.push(json!({"text": text_now, "get": Value::Object(get)}));
    }
    json!({"states": states, "failed": failed})
}''' % (fname, T, opener, '\n'.join(set_arms), '\n'.join(get_arms), printer))
    out.append('''
pub const TABLE_HASH: &str = "%s";
pub fn op_accessor(req: &Value) -> Value {
    let text = req["s"].as_str().unwrap_or("").to_string();
    let steps: Vec<Value> = req["steps"].as_array().cloned().unwrap_or_default();
    let getters: Vec<Value> = req["getters"].as_array().cloned().unwrap_or_default();
    let ga: Vec<Value> = req["getter_args"].as_array().cloned().unwrap_or_default();
    let (text, steps, getters, ga) = (&text[..], &steps[..], &getters[..], &ga[..]);
    guard(|| match req["type"].as_str().unwrap_or("") {
%s
        other => json!({"error": format!("unknown view type {}", other)}),
    })
}''' % (sig, '\n'.join(disp)))
    return '\n'.join(out) + '\n', sig, skipped


def ensure():
    """(re)write the generated file when the accessor table changed; returns (hash, skipped)"""
    text, sig, skipped = generate()
    old = open(OUT).read() if os.path.exists(OUT) else ''
    if old != text: open(OUT, 'w').write(text)
    return sig, skipped


if __name__ == '__main__':
    sig, skipped = ensure()
    print('table', sig, 'skipped', json.dumps(skipped))
