#!/usr/bin/env python3
"""run_seeded.py <seeded-dir> <property> [<property>...] : apply the mutation to /repo, run the given checks (quick tier), undo, record outcome in meta.json"""
import sys, os, subprocess, json, time
d = os.path.abspath(sys.argv[1]); props = sys.argv[2:]
tier = os.environ.get('SEED_TIER', 'quick')
assert subprocess.run(['git', '-C', '/repo', 'status', '--porcelain', '--untracked-files=no'], capture_output=True, text=True).stdout.strip() == '', '/repo not clean'
subprocess.run(['git', '-C', '/repo', 'apply', os.path.join(d, 'patch.diff')], check=True)
res = {}
try:
    for p in props:
        t = time.time()
        r = subprocess.run(['./check', p, '--tier', tier], cwd='/verif', capture_output=True, text=True)
        vio = [l for l in r.stdout.splitlines() if l.startswith('VIOLATION')]
        cls = [l.strip() for l in r.stdout.splitlines() if l.strip().startswith('class:')]
        res[p] = {'exit': r.returncode, 'violations': len(vio), 'classes': cls[:6], 'wall_s': round(time.time() - t, 1), 'summary': [l for l in r.stderr.splitlines() if l.startswith('[')][-1:] }
        print(p, 'exit', r.returncode, 'violations', len(vio), cls[:3], res[p]['summary'])
finally:
    subprocess.run(['git', '-C', '/repo', 'checkout', '--', '.'], check=True)
mp = os.path.join(d, 'meta.json')
meta = json.load(open(mp)) if os.path.exists(mp) else {}
meta.setdefault('check_results', {}).update(res)
json.dump(meta, open(mp, 'w'), indent=1)
