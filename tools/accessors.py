"""Read the typed-view accessor pairs from /repo's current source: (crate, module, type, setter, arg types, getter, return type)."""
import re, os, json, sys
REPO = '/repo'
FILES = [('control', 'lossless::control', 'debian-control/src/lossless/control.rs'), ('control', 'lossless::apt', 'debian-control/src/lossless/apt.rs'),
         ('control', 'lossless::changes', 'debian-control/src/lossless/changes.rs'), ('control', 'lossless::buildinfo', 'debian-control/src/lossless/buildinfo.rs'),
         ('copyright', 'lossless', 'debian-copyright/src/lossless.rs'), ('dep3', 'lossless', 'dep3/src/lossless.rs')]


def strip_tests(s):
    i = s.find('#[cfg(test)]')
    return s if i < 0 else s[:i]


def impl_blocks(s):
    """yield (type name, body text) for inherent impl blocks"""
    for m in re.finditer(r'^impl\s+(\w+)\s*\{', s, re.M):
        depth = 0; i = m.end() - 1
        for j in range(i, len(s)):
            if s[j] == '{': depth += 1
            elif s[j] == '}':
                depth -= 1
                if depth == 0: yield m.group(1), s[i + 1:j]; break


def table():
    out = []
    for crate, module, path in FILES:
        s = strip_tests(open(os.path.join(REPO, path)).read())
        wrappers = set(re.findall(r'pub struct (\w+)\((?:deb822_lossless::)?(?:Paragraph|Deb822)\)', s))
        for ty, body in impl_blocks(s):
            if ty not in wrappers: continue
            fns = {}
            for m in re.finditer(r'pub fn (\w+)\s*\(\s*&(mut )?self\s*(?:,\s*([^)]*))?\)\s*(?:->\s*([^{]+?))?\s*\{', body):
                # the function's own body (brace matching), to tell clearing setters (they call remove) from flag writers
                depth = 0; j = m.end() - 1; fb = ''
                for k2 in range(j, len(body)):
                    if body[k2] == '{': depth += 1
                    elif body[k2] == '}':
                        depth -= 1
                        if depth == 0: fb = body[j:k2 + 1]; break
                fns[m.group(1)] = {'mut': bool(m.group(2)), 'args': (m.group(3) or '').strip().rstrip(','), 'ret': (m.group(4) or '').strip(), 'removes': '.remove(' in fb,
                                    'lits': set(re.findall(r'"([A-Z][A-Za-z0-9]*(?:-[A-Za-z0-9]+)*)"', fb))}
            for name, f in fns.items():
                if not name.startswith('set_') or not f['mut']: continue
                base = name[4:]
                g = fns.get(base)
                args = [a.split(':', 1)[1].strip() for a in split_args(f['args'])]
                out.append({'crate': crate, 'module': module, 'type': ty, 'setter': name, 'args': args, 'getter': base if g else None, 'ret': g['ret'] if g else None, 'removes': f['removes'],
                            'literals': sorted(f['lits'] | (g['lits'] if g else set()))})      # field-name-like string constants in the two bodies: the names the pair may read or write
            for name, f in fns.items():
                if f['mut'] or name.startswith('set_') or f['args']: continue
                if ('set_' + name) in fns: continue
                out.append({'crate': crate, 'module': module, 'type': ty, 'setter': None, 'args': [], 'getter': name, 'ret': f['ret']})
    return out


def split_args(a):
    parts = []; depth = 0; cur = ''
    for ch in a:
        if ch in '<([': depth += 1
        elif ch in '>)]': depth -= 1
        if ch == ',' and depth == 0: parts.append(cur); cur = ''
        else: cur += ch
    if cur.strip(): parts.append(cur)
    return parts


if __name__ == '__main__':
    t = table()
    for r in t: print('%-10s %-22s %-16s %-28s %-40s %-24s %s' % (r['crate'], r['module'], r['type'], r['setter'], ','.join(r['args']), r['getter'], r['ret']))
    print(len([r for r in t if r['setter']]), 'setters;', len([r for r in t if not r['setter']]), 'getter-only')
