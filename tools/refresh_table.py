#!/usr/bin/env python3
"""refresh_table.py : rewrite the paths / wall columns of DESIGN.md section 11.2 from evidence/*.json (the committed quick runs)"""
import json, re, os
root = os.path.dirname(os.path.dirname(os.path.abspath(__file__)))
p = os.path.join(root, 'DESIGN.md'); s = open(p).read()
def row(m):
    pid = m.group(1)
    try: e = json.load(open(os.path.join(root, 'evidence', pid + '.json')))
    except Exception: return m.group(0)
    if e.get('tier') != 'quick': return m.group(0)
    n = e['coverage']['states']
    return '| %s |%s| %s | %d s |%s|' % (pid, m.group(2), ('%.1f k' % (n / 1000.0)), round(e['wall_s']), m.group(5))
s = re.sub(r'^\| (C\d\d) \|([^|\n]*)\| ([^|\n]*) \| ([^|\n]*) \|([^|\n]*)\|$', row, s, flags=re.M)
open(p, 'w').write(s)
